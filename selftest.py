#!/usr/bin/env python3
"""Self-tests of the verification machinery (not part of the registered checks).

  selftest.py determinism [--seeds N]       every simulated run twice, in fresh processes with
                                            different slicing: identical digests required
  selftest.py sensitivity [pattern ...]     every patch in /verif/mutants and /verif/seeded is
                                            applied to a scratch worktree of /repo (outside /repo
                                            and /verif); the check named by the patch's prefix must
                                            exit 1 with a VIOLATION line; the scratch tree and its
                                            build output are removed afterwards
Results are written to /verif/selftest_results.json.
"""
import glob, json, os, shutil, subprocess, sys, time

VERIF = "/verif"


def sh(cmd, **kw):
    return subprocess.run(cmd, stdout=subprocess.PIPE, stderr=subprocess.STDOUT, **kw)


def determinism(args):
    n = 2000
    if "--seeds" in args:
        n = int(args[args.index("--seeds") + 1])
    subprocess.run(["cargo", "build", "--release", "--offline", "-p", "qsim", "-p", "iosim"], cwd=VERIF + "/sim", check=True,
                   stdout=subprocess.DEVNULL, stderr=subprocess.DEVNULL)
    qsim = VERIF + "/sim/target/release/qsim"
    ok = True
    report = {}
    for prop in ("C05", "C22", "C23"):
        digests = []
        for workers in (16, 3):
            per = (n + workers - 1) // workers
            procs = []
            for w in range(workers):
                first = w * per
                cnt = max(0, min(per, n - first))
                if cnt == 0:
                    continue
                procs.append(subprocess.Popen([qsim, "digest", "--property", prop, "--seed", "7", "--first", str(first), "--runs", str(cnt)],
                                              stdout=subprocess.DEVNULL, stderr=subprocess.PIPE))
            lines = {}
            for p in procs:
                out = p.communicate()[1].decode()
                for line in out.splitlines():
                    parts = line.split(" ", 1)
                    if parts[0].isdigit():
                        lines[int(parts[0])] = parts[1]
            digests.append(lines)
        same = digests[0] == digests[1] and len(digests[0]) == n
        diff = [i for i in digests[0] if digests[0].get(i) != digests[1].get(i)]
        report[prop] = {"runs": n, "identical": same, "first_differences": diff[:5]}
        print("determinism %s: %d runs x 2 executions (16 and 3 processes): %s" % (prop, n, "identical" if same else "DIFFERENT %s" % diff[:5]))
        ok = ok and same
    return ok, report


def prop_of(path):
    return os.path.basename(path).split("-")[0]


def sensitivity(args):
    patches = sorted(glob.glob(VERIF + "/mutants/*.diff")) + sorted(glob.glob(VERIF + "/seeded/*/patch.diff"))
    if args:
        patches = [p for p in patches if any(a in p for a in args)]
    scratch = os.environ.get("SELFTEST_SCRATCH", "/var/tmp/suiron-verif-selftest")
    tree = scratch + "/tree"
    shutil.rmtree(scratch, ignore_errors=True)
    os.makedirs(scratch)
    sh(["git", "-C", "/repo", "worktree", "prune"])
    r = sh(["git", "-C", "/repo", "worktree", "add", "--detach", tree, "HEAD"])
    if r.returncode != 0:
        print(r.stdout.decode())
        return False, {}
    results = {}
    ok = True
    try:
        for p in patches:
            name = os.path.basename(os.path.dirname(p)) if p.endswith("patch.diff") else os.path.basename(p)[:-5]
            prop = name.split("-")[0]
            sh(["git", "-C", tree, "checkout", "--", "."])
            a = sh(["git", "-C", tree, "apply", p])
            if a.returncode != 0:
                results[name] = {"property": prop, "result": "patch does not apply", "detail": a.stdout.decode()[-300:]}
                print("sensitivity %-45s patch does not apply" % name)
                ok = False
                continue
            env = dict(os.environ, VERIF_REPO=tree, VERIF_SCRATCH=scratch + "/build")
            t0 = time.time()
            c = sh([VERIF + "/check", prop, "quick"], env=env)
            out = c.stdout.decode()
            caught = c.returncode == 1 and ("VIOLATION property=%s" % prop) in out
            classes = sorted(set(l.split(":")[1].strip().split(" ")[1] for l in out.splitlines() if l.startswith("violation: ")))
            results[name] = {"property": prop, "exit": c.returncode, "caught": caught, "classes": classes, "wall_s": round(time.time() - t0, 1),
                             "tail": out.splitlines()[-3:] if not caught else []}
            print("sensitivity %-45s %-6s exit=%d %s (%.0f s)" % (name, "CAUGHT" if caught else "MISSED", c.returncode, classes, time.time() - t0))
            ok = ok and caught
        # and the unpatched copy must pass
        sh(["git", "-C", tree, "checkout", "--", "."])
        for prop in sorted(set(r["property"] for r in results.values())):
            env = dict(os.environ, VERIF_REPO=tree, VERIF_SCRATCH=scratch + "/build")
            c = sh([VERIF + "/check", prop, "quick"], env=env)
            clean = c.returncode == 0
            results["unpatched-" + prop] = {"property": prop, "exit": c.returncode, "clean": clean}
            print("sensitivity %-45s %s exit=%d" % ("unpatched copy, " + prop, "CLEAN" if clean else "ALARM", c.returncode))
            ok = ok and clean
    finally:
        sh(["git", "-C", "/repo", "worktree", "remove", "--force", tree])
        shutil.rmtree(scratch, ignore_errors=True)
    return ok, results


def main():
    if len(sys.argv) < 2:
        print(__doc__)
        sys.exit(2)
    what, args = sys.argv[1], sys.argv[2:]
    if what == "determinism":
        ok, rep = determinism(args)
    elif what == "sensitivity":
        ok, rep = sensitivity(args)
    else:
        print(__doc__)
        sys.exit(2)
    path = VERIF + "/selftest_results.json"
    try:
        allr = json.load(open(path))
    except Exception:
        allr = {}
    allr.setdefault(what, {}).update(rep)
    json.dump(allr, open(path, "w"), indent=1, sort_keys=True)
    sys.exit(0 if ok else 1)


if __name__ == "__main__":
    main()
