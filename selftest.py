#!/usr/bin/env python3
print("selftest: see /verif/tools (being built)")
