#!/usr/bin/env bash
# Builds the verification framework from files on disk only (offline).
set -eu
export CARGO_NET_OFFLINE=true
cd /verif
# the vendored timer crate must be the registry source apart from the marked VERIF lines
python3 /verif/tools/check_vendor.py
(cd /verif/sim && cargo build --release --offline 2>&1 | tail -3)
if [ -d /verif/miri ] && [ -f /verif/miri/Cargo.toml ]; then
  (cd /verif/miri && cargo build --release --offline 2>&1 | tail -3)
fi
mkdir -p /verif/evidence /verif/replays
echo "setup done"
