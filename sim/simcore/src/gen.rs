//! Scenario generator for the query-session simulator (and the Miri corpus).
//!
//! Swarm style: every run enables a random subset of program features, a
//! random time model and a random schedule policy. Program shapes are
//! restricted to ones that cannot panic or recurse without bound in the
//! engine: calls are stratified (a predicate only calls predicates of lower
//! layers), recursion appears only through fixed templates (mem/2 over ground
//! lists, nat/1), arithmetic only inside nat/1, `time(..)` never.

use crate::ast::*;
use crate::rng::Rng;
use crate::scenario::*;

const ATOMS: [&str; 3] = ["a", "b", "c"];
const CMP_OPS: [&str; 5] = ["equal", "less_than", "less_than_or_equal", "greater_than", "greater_than_or_equal"];

#[derive(Clone, Debug)]
struct Pred {
    name: String,
    arity: usize,
    class: QueryClass,
    /// may appear in rule bodies of higher layers
    callable: bool,
}

#[derive(Clone, Debug, Default)]
pub struct Features {
    pub fact_vars: bool,
    pub layers: usize,
    pub not: bool,
    pub or: bool,
    pub cut: bool,
    pub print: bool,
    pub lists: bool,
    pub nat: bool,
    pub slow_finite: bool,
    pub slow_answers: bool,
    pub diverger: bool,
    pub empty_pred: bool,
    pub builtins: bool,
    pub time_op: bool,
    pub arith: bool,
    /// arguments may be complex terms, floats and lists; rule heads may take complex terms apart
    pub rich: bool,
}

thread_local! {
    /// set while a program with the `rich` feature is being generated
    static RICH: std::cell::Cell<bool> = std::cell::Cell::new(false);
}

fn simple_constant(rng: &mut Rng) -> Term {
    if rng.chance(1, 2) {
        Term::atom(*rng.pick(&ATOMS))
    } else {
        Term::Int(rng.range(1, 3) as i64)
    }
}

fn rich_constant(rng: &mut Rng) -> Term {
    match rng.below(6) {
        0 | 1 => Term::Cplx("pair".into(), vec![simple_constant(rng), simple_constant(rng)]),
        2 => Term::Cplx("wrap".into(), vec![Term::Cplx("pair".into(), vec![simple_constant(rng), simple_constant(rng)])]),
        3 => Term::Float((*rng.pick(&["0.5", "2.5", "7.25"])).to_string()),
        4 => {
            let n = rng.range(0, 2) as usize;
            Term::List((0..n).map(|_| simple_constant(rng)).collect(), None)
        }
        _ => Term::Cplx("one".into(), vec![simple_constant(rng)]),
    }
}

/// An element of a list: any constant that is not itself a list. make_linked_list takes a list
/// in last position for the *tail* of the list it builds (`[a, []]` gets a bare Nil as tail),
/// and print_list never returns on such a list — the engine's business, not these properties'.
fn list_item(rng: &mut Rng) -> Term {
    loop {
        let c = constant(rng);
        if !matches!(c, Term::List(..)) {
            return c;
        }
    }
}

fn constant(rng: &mut Rng) -> Term {
    if RICH.with(|r| r.get()) && rng.chance(1, 3) {
        return rich_constant(rng);
    }
    if rng.chance(1, 2) {
        Term::atom(*rng.pick(&ATOMS))
    } else {
        Term::Int(rng.range(1, 3) as i64)
    }
}

struct Ctx {
    feats: Features,
    preds: Vec<Pred>,
    clauses: Vec<Clause>,
}

impl Ctx {
    fn callable(&self) -> Vec<Pred> {
        self.preds.iter().filter(|p| p.callable).cloned().collect()
    }
}

fn pick_arg(rng: &mut Rng, scope: &mut Vec<String>, fresh_ok: bool) -> Term {
    let r = rng.below(10);
    if r < 5 && !scope.is_empty() {
        Term::Var(rng.pick(scope).clone())
    } else if r < 7 && fresh_ok {
        let name = format!("$V{}", scope.len());
        scope.push(name.clone());
        Term::Var(name)
    } else if r < 8 {
        Term::Anon
    } else {
        constant(rng)
    }
}

fn gen_leaf(rng: &mut Rng, ctx: &Ctx, callable: &[Pred], scope: &mut Vec<String>, allow_cut: bool) -> GoalSpec {
    let f = &ctx.feats;
    // weights: call, unify, cmp, print, nl, cut, fail, mem, count, append, print_list, arithmetic,
    // functor, include/exclude, join
    let w = [
        if callable.is_empty() { 0 } else { 10 },
        2,
        2,
        if f.print { 3 } else { 0 },
        if f.print { 1 } else { 0 },
        if f.cut && allow_cut { 3 } else { 0 },
        1,
        if f.lists { 2 } else { 0 },
        if f.builtins { 1 } else { 0 },
        if f.builtins { 1 } else { 0 },
        if f.builtins && f.print { 1 } else { 0 },
        if f.arith { 3 } else { 0 },
        if f.builtins && f.rich { 2 } else { 0 },
        if f.builtins && f.rich { 2 } else { 0 },
        if f.builtins { 1 } else { 0 },
    ];
    match rng.weighted(&w) {
        0 => {
            // No variable twice in one call: the engine can build a cyclic binding when a
            // variable meets itself ($X = $X), after which replace_variables never returns.
            // That is C08's subject (a pure function of the program), not this simulator's.
            let p = rng.pick(callable).clone();
            let mut args: Vec<Term> = vec![];
            for _ in 0..p.arity {
                let mut a = pick_arg(rng, scope, true);
                if let Term::Var(_) = &a {
                    if args.contains(&a) {
                        a = constant(rng);
                    }
                }
                args.push(a);
            }
            GoalSpec::Call(p.name, args)
        }
        1 => {
            if rng.chance(1, 6) {
                // two variables that are both new here (never a variable that may already be
                // aliased: see the note on cyclic bindings above)
                let a = fresh(scope);
                let b = fresh(scope);
                return GoalSpec::Unify(a, b);
            }
            let l = pick_arg(rng, scope, true);
            // otherwise variable = constant only
            let r = constant(rng);
            GoalSpec::Unify(l, r)
        }
        2 => {
            let l = if scope.is_empty() { constant(rng) } else { Term::Var(rng.pick(scope).clone()) };
            GoalSpec::Cmp(rng.pick(&CMP_OPS).to_string(), l, constant(rng))
        }
        3 => {
            let mut ts = vec![Term::atom(*rng.pick(&["<%s>", "p:%s ", "x", "%s,%s;"]))];
            let n = rng.below(3);
            for _ in 0..n {
                ts.push(if scope.is_empty() { constant(rng) } else { Term::Var(rng.pick(scope).clone()) });
            }
            GoalSpec::Print(ts)
        }
        4 => GoalSpec::Nl,
        5 => GoalSpec::Cut,
        6 => GoalSpec::Fail,
        7 => {
            let x = pick_arg(rng, scope, true);
            let n = rng.range(0, 3) as usize;
            let items = (0..n).map(|_| list_item(rng)).collect();
            GoalSpec::Call("mem".to_string(), vec![x, Term::List(items, None)])
        }
        8 => {
            let n = rng.range(0, 3) as usize;
            let items = (0..n).map(|_| list_item(rng)).collect();
            let out = if rng.chance(3, 4) { fresh(scope) } else { Term::Int(rng.range(0, 3) as i64) };
            GoalSpec::BuiltIn("count".to_string(), vec![Term::List(items, None), out])
        }
        9 => {
            let n = rng.range(0, 2) as usize;
            let items = (0..n).map(|_| list_item(rng)).collect();
            GoalSpec::BuiltIn("append".to_string(), vec![constant(rng), Term::List(items, None), fresh(scope)])
        }
        10 => {
            let n = rng.range(1, 3) as usize;
            let items = (0..n).map(|_| list_item(rng)).collect();
            GoalSpec::BuiltIn("print_list".to_string(), vec![Term::List(items, None)])
        }
        12 => {
            // functor(T, F) / functor(T, F, A)
            let t = if !scope.is_empty() && rng.chance(1, 3) { Term::Var(rng.pick(scope).clone()) } else { rich_constant(rng) };
            let f = match rng.below(4) {
                0 => Term::atom("pair"),
                1 => Term::atom("pa*"),
                _ => fresh(scope),
            };
            let mut args = vec![t, f];
            if rng.chance(1, 2) {
                args.push(if rng.chance(2, 3) { fresh(scope) } else { Term::Int(rng.range(1, 2) as i64) });
            }
            GoalSpec::BuiltIn("functor".to_string(), args)
        }
        13 => {
            // include(filter, list, out) / exclude(filter, list, out)
            let filter = match rng.below(4) {
                0 => Term::Cplx("pair".into(), vec![Term::Anon, simple_constant(rng)]),
                1 => Term::Cplx("pair".into(), vec![simple_constant(rng), Term::Anon]),
                2 => Term::Anon,
                _ => constant(rng),
            };
            let n = rng.range(0, 3) as usize;
            let list = if !scope.is_empty() && rng.chance(1, 5) {
                Term::Var(rng.pick(scope).clone())
            } else {
                Term::List((0..n).map(|_| list_item(rng)).collect(), None)
            };
            let name = if rng.chance(1, 2) { "include" } else { "exclude" };
            GoalSpec::BuiltIn(name.to_string(), vec![filter, list, fresh(scope)])
        }
        14 => {
            // $V = join(t1, t2, ..): words and punctuation joined into one atom
            let n = rng.range(1, 3) as usize;
            let mut ts: Vec<Term> = vec![];
            for _ in 0..n {
                ts.push(match rng.below(5) {
                    0 => Term::atom(*rng.pick(&[",", "?", "!", "."])),
                    1 => Term::List(vec![simple_constant(rng), simple_constant(rng)], None),
                    2 if !scope.is_empty() => Term::Var(rng.pick(scope).clone()),
                    _ => simple_constant(rng),
                });
            }
            let target = if rng.chance(3, 4) { fresh(scope) } else { simple_constant(rng) };
            GoalSpec::Unify(target, Term::Func("join".to_string(), ts))
        }
        _ => {
            // $V = op(number, number) on constants only (the arithmetic functions panic on
            // unbound or non-numeric operands); integers and floats, never a zero divisor
            let num = |rng: &mut Rng| -> Term {
                if rng.chance(1, 3) {
                    Term::Float((*rng.pick(&["0.5", "1.5", "2.0", "2.5", "7.25"])).to_string())
                } else {
                    Term::Int(rng.range(1, 9) as i64)
                }
            };
            let op = *rng.pick(&["add", "subtract", "multiply", "divide"]);
            let a = num(rng);
            let b = num(rng);
            let target = if rng.chance(3, 4) { fresh(scope) } else { Term::Int(rng.range(1, 9) as i64) };
            GoalSpec::Unify(target, Term::Func(op.to_string(), vec![a, b]))
        }
    }
}

fn fresh(scope: &mut Vec<String>) -> Term {
    let name = format!("$V{}", scope.len());
    scope.push(name.clone());
    Term::Var(name)
}

fn gen_goal(rng: &mut Rng, ctx: &Ctx, callable: &[Pred], scope: &mut Vec<String>, depth: usize, allow_cut: bool) -> GoalSpec {
    let f = &ctx.feats;
    if depth == 0 {
        return gen_leaf(rng, ctx, callable, scope, allow_cut);
    }
    // weights: leaf, and, or, not, time
    let w = [5, 6, if f.or { 3 } else { 0 }, if f.not { 3 } else { 0 }, if f.time_op { 2 } else { 0 }];
    match rng.weighted(&w) {
        4 => GoalSpec::Time(Box::new(gen_goal(rng, ctx, callable, scope, depth - 1, false))),
        0 => gen_leaf(rng, ctx, callable, scope, allow_cut),
        1 => {
            let n = rng.range(1, 4) as usize;
            GoalSpec::And((0..n).map(|_| gen_goal(rng, ctx, callable, scope, depth - 1, allow_cut)).collect())
        }
        2 => {
            let n = rng.range(1, 3) as usize;
            GoalSpec::Or((0..n).map(|_| gen_goal(rng, ctx, callable, scope, depth - 1, allow_cut)).collect())
        }
        _ => GoalSpec::Not(Box::new(gen_goal(rng, ctx, callable, scope, depth - 1, false))),
    }
}

fn gen_features(family: &str, rng: &mut Rng) -> Features {
    let mut f = Features {
        fact_vars: rng.chance(1, 3),
        layers: rng.range(0, 2) as usize,
        not: rng.chance(1, 2),
        or: rng.chance(1, 2),
        cut: rng.chance(1, 2),
        print: rng.chance(1, 2),
        lists: rng.chance(1, 4),
        nat: rng.chance(1, 5),
        slow_finite: rng.chance(1, 4),
        slow_answers: rng.chance(1, 5),
        diverger: rng.chance(1, 5),
        empty_pred: rng.chance(1, 4),
        builtins: rng.chance(1, 3),
        time_op: rng.chance(1, 5),
        arith: rng.chance(1, 4),
        rich: rng.chance(1, 3),
    };
    match family {
        "C05" => {
            // what the anchors name: not, and/or chains, retained children, prints
            if rng.chance(2, 3) { f.not = true; }
            if rng.chance(2, 3) { f.layers = f.layers.max(1); }
            if rng.chance(1, 2) { f.print = true; }
            if rng.chance(1, 2) { f.or = true; }
        }
        "C23" => {
            if rng.chance(1, 2) { f.diverger = true; }
            if rng.chance(1, 2) { f.slow_finite = true; }
            if rng.chance(1, 3) { f.slow_answers = true; }
            if rng.chance(1, 3) { f.nat = true; }
        }
        _ => {
            if rng.chance(1, 3) { f.diverger = true; }
            if rng.chance(1, 3) { f.slow_finite = true; }
        }
    }
    f
}

/// Generates the program and the list of queryable predicates.
fn gen_program(rng: &mut Rng, feats: &Features, allow_diverger: bool) -> (Vec<Clause>, Vec<QuerySpec>) {
    let mut ctx = Ctx { feats: feats.clone(), preds: vec![], clauses: vec![] };
    RICH.with(|r| r.set(feats.rich));

    // --- layer 0: fact tables ---
    let nf = rng.range(1, 3) as usize;
    for i in 0..nf {
        let mut arity = *rng.pick(&[0usize, 1, 1, 1, 2, 2, 3]);
        let mut name = format!("f{}", i);
        // now and then two predicates share a functor and differ in arity only (f0/1 and f0/2)
        if i > 0 && rng.chance(1, 4) {
            let first = ctx.preds[0].clone();
            if ctx.preds.iter().all(|p| p.name != first.name || p.arity != (first.arity + 1) % 4) {
                name = first.name.clone();
                arity = (first.arity + 1) % 4;
            }
        }
        let n = if feats.empty_pred && rng.chance(1, 4) { 0 } else { rng.range(1, 6) as usize };
        for _ in 0..n {
            let args = (0..arity)
                .map(|k| {
                    if feats.fact_vars && feats.rich && rng.chance(1, 8) {
                        // a variable inside a complex term
                        Term::Cplx("pair".into(), vec![Term::Var(format!("$G{}", k)), simple_constant(rng)])
                    } else if feats.fact_vars && rng.chance(1, 6) {
                        if rng.chance(1, 2) { Term::Var(format!("$F{}", k)) } else { Term::Anon }
                    } else {
                        constant(rng)
                    }
                })
                .collect();
            ctx.clauses.push(Clause { functor: name.clone(), args, body: None });
        }
        ctx.preds.push(Pred { name, arity, class: QueryClass::Finite, callable: true });
    }

    // --- templates ---
    if feats.lists {
        ctx.clauses.push(Clause {
            functor: "mem".into(),
            args: vec![Term::var("$X"), Term::List(vec![Term::var("$X")], Some("$R".into()))],
            body: None,
        });
        ctx.clauses.push(Clause {
            functor: "mem".into(),
            args: vec![Term::var("$X"), Term::List(vec![Term::Anon], Some("$T".into()))],
            body: Some(GoalSpec::Call("mem".into(), vec![Term::var("$X"), Term::var("$T")])),
        });
    }

    // a compound term built in one rule, with parts bound after it was built, handed to the
    // caller through a local variable: the answer reaches the query variable through a chain
    if feats.rich {
        if let Some(table) = ctx.preds.iter().find(|p| p.arity >= 1 && p.callable).cloned() {
            let mut args = vec![Term::var("$N")];
            if table.arity >= 2 { args.push(Term::var("$A")); }
            for _ in 2..table.arity { args.push(Term::Anon); }
            ctx.clauses.push(Clause {
                functor: "mk".into(),
                args: vec![Term::var("$P")],
                body: Some(GoalSpec::And(vec![
                    GoalSpec::Unify(Term::var("$P"), Term::Cplx("pair".into(), vec![Term::var("$N"), if table.arity >= 2 { Term::var("$A") } else { simple_constant(rng) }])),
                    GoalSpec::Call(table.name.clone(), args),
                ])),
            });
            ctx.clauses.push(Clause {
                functor: "via".into(),
                args: vec![Term::var("$Out")],
                body: Some(GoalSpec::And(vec![GoalSpec::Call("mk".into(), vec![Term::var("$L")]), GoalSpec::Unify(Term::var("$Out"), Term::var("$L"))])),
            });
            ctx.preds.push(Pred { name: "via".into(), arity: 1, class: QueryClass::Finite, callable: false });
        }
        if feats.lists {
            // the recursive list builder: one cell per level, parts bound on the way back
            ctx.clauses.push(Clause { functor: "copy".into(), args: vec![Term::List(vec![], None), Term::List(vec![], None)], body: None });
            ctx.clauses.push(Clause {
                functor: "copy".into(),
                args: vec![Term::List(vec![Term::var("$H")], Some("$T".into())), Term::List(vec![Term::var("$H")], Some("$R".into()))],
                body: Some(GoalSpec::Call("copy".into(), vec![Term::var("$T"), Term::var("$R")])),
            });
            ctx.clauses.push(Clause {
                functor: "dup".into(),
                args: vec![Term::var("$In"), Term::var("$Out")],
                body: Some(GoalSpec::And(vec![GoalSpec::Call("copy".into(), vec![Term::var("$In"), Term::var("$L")]), GoalSpec::Unify(Term::var("$Out"), Term::var("$L"))])),
            });
            ctx.preds.push(Pred { name: "dup".into(), arity: 2, class: QueryClass::Finite, callable: false });
        }
    }

    // --- rule layers ---
    for layer in 1..=feats.layers {
        let np = rng.range(1, 2) as usize;
        let callable = ctx.callable();
        let mut new_preds = vec![];
        for j in 0..np {
            let arity = *rng.pick(&[0usize, 1, 1, 2]);
            let name = format!("r{}{}", layer, j);
            let nc = rng.range(1, 3) as usize;
            for _ in 0..nc {
                let mut scope: Vec<String> = vec![];
                let args: Vec<Term> = (0..arity)
                    .map(|k| {
                        if feats.rich && rng.chance(1, 6) {
                            // the head takes a complex term apart
                            let v = format!("$H{}", k);
                            let w = format!("$I{}", k);
                            scope.push(v.clone());
                            scope.push(w.clone());
                            Term::Cplx("pair".into(), vec![Term::Var(v), Term::Var(w)])
                        } else if rng.chance(5, 6) {
                            let v = format!("$H{}", k);
                            scope.push(v.clone());
                            Term::Var(v)
                        } else {
                            constant(rng)
                        }
                    })
                    .collect();
                let depth = rng.range(0, 2) as usize;
                let body = gen_goal(rng, &ctx, &callable, &mut scope, depth, true);
                ctx.clauses.push(Clause { functor: name.clone(), args, body: Some(body) });
            }
            new_preds.push(Pred { name, arity, class: QueryClass::Finite, callable: true });
        }
        ctx.preds.extend(new_preds);
    }

    // --- time-consuming shapes over t/1 ---
    let need_t = feats.slow_finite || feats.slow_answers || (feats.diverger && allow_diverger);
    if need_t {
        let w = rng.range(2, 6) as i64;
        for i in 1..=w {
            ctx.clauses.push(Clause { functor: "t".into(), args: vec![Term::Int(i)], body: None });
        }
        if feats.slow_finite {
            // w^d goal attempts, all failing: d chosen so that w^d <= ~3000
            let mut d = 1;
            while (w as u64).pow(d + 1) <= 3000 && d < 8 {
                d += 1;
            }
            let d = rng.range(1, d as u64) as usize;
            let mut gs: Vec<GoalSpec> =
                (0..d).map(|k| GoalSpec::Call("t".into(), vec![Term::Var(format!("$A{}", k))])).collect();
            gs.push(GoalSpec::Fail);
            ctx.clauses.push(Clause { functor: "spin".into(), args: vec![], body: Some(GoalSpec::And(gs)) });
            if rng.chance(1, 2) {
                // a second clause that does succeed, after the slow failure
                ctx.clauses.push(Clause { functor: "spin".into(), args: vec![], body: None });
            }
            ctx.preds.push(Pred { name: "spin".into(), arity: 0, class: QueryClass::Finite, callable: false });
        }
        if feats.slow_answers {
            // answers spread over a w^2..w^3 search
            let d = rng.range(1, 2) as usize;
            let mut gs: Vec<GoalSpec> =
                (0..d).map(|k| GoalSpec::Call("t".into(), vec![Term::Var(format!("$A{}", k))])).collect();
            gs.push(GoalSpec::Call("t".into(), vec![Term::var("$X")]));
            ctx.clauses.push(Clause { functor: "gen".into(), args: vec![Term::var("$X")], body: Some(GoalSpec::And(gs)) });
            ctx.preds.push(Pred { name: "gen".into(), arity: 1, class: QueryClass::Finite, callable: false });
        }
        if feats.diverger && allow_diverger {
            // 10 facts, 9 nested calls: 10^9 goal attempts, no answer, no output
            for i in 1..=10 {
                ctx.clauses.push(Clause { functor: "u".into(), args: vec![Term::Int(i)], body: None });
            }
            let mut gs: Vec<GoalSpec> =
                (0..9).map(|k| GoalSpec::Call("u".into(), vec![Term::Var(format!("$A{}", k))])).collect();
            gs.push(GoalSpec::Fail);
            ctx.clauses.push(Clause { functor: "forever".into(), args: vec![], body: Some(GoalSpec::And(gs)) });
            ctx.preds.push(Pred { name: "forever".into(), arity: 0, class: QueryClass::Diverges, callable: false });
        }
    }
    if feats.nat {
        ctx.clauses.push(Clause { functor: "nat".into(), args: vec![Term::Int(0)], body: None });
        ctx.clauses.push(Clause {
            functor: "nat".into(),
            args: vec![Term::var("$X")],
            body: Some(GoalSpec::And(vec![
                GoalSpec::Call("nat".into(), vec![Term::var("$Y")]),
                GoalSpec::Unify(Term::var("$X"), Term::Func("add".into(), vec![Term::var("$Y"), Term::Int(1)])),
            ])),
        });
        ctx.preds.push(Pred { name: "nat".into(), arity: 1, class: QueryClass::Unbounded, callable: false });
        if feats.cut {
            // finite view of an unbounded predicate: committed by cut
            let k = rng.range(0, 4) as i64;
            ctx.clauses.push(Clause {
                functor: "natk".into(),
                args: vec![Term::var("$X")],
                body: Some(GoalSpec::And(vec![
                    GoalSpec::Call("nat".into(), vec![Term::var("$X")]),
                    GoalSpec::Cmp("greater_than_or_equal".into(), Term::var("$X"), Term::Int(k)),
                    GoalSpec::Cut,
                ])),
            });
            ctx.preds.push(Pred { name: "natk".into(), arity: 1, class: QueryClass::Finite, callable: false });
        }
    }
    if feats.lists {
        ctx.preds.push(Pred { name: "mem".into(), arity: 2, class: QueryClass::Finite, callable: false });
    }

    // --- queries ---
    let nq = rng.range(1, 4) as usize;
    let mut queries = vec![];
    // special shapes first (they are what the time model is for), then random ones
    let mut pool: Vec<Pred> = ctx.preds.iter().filter(|p| !p.callable).cloned().collect();
    rng.shuffle(&mut pool);
    let mut general: Vec<Pred> = ctx.preds.iter().filter(|p| p.callable).cloned().collect();
    general.reverse(); // prefer the highest layer
    for i in 0..nq {
        let p = if !pool.is_empty() && rng.chance(1, 2) {
            pool.pop().unwrap()
        } else if i == 0 || rng.chance(2, 3) {
            // top layers first
            let k = rng.usize_below(general.len().min(2));
            general[k].clone()
        } else {
            rng.pick(&general).clone()
        };
        let mut vars = 0;
        let args: Vec<Term> = if p.name == "dup" {
            let n = rng.range(0, 3) as usize;
            vec![Term::List((0..n).map(|_| simple_constant(rng)).collect(), None), Term::var("$P0")]
        } else if p.name == "mem" {
            let n = rng.range(0, 4) as usize;
            vec![Term::var("$P0"), Term::List((0..n).map(|_| list_item(rng)).collect(), None)]
        } else {
            (0..p.arity)
                .map(|_| {
                    let r = rng.below(20);
                    if r == 19 && vars > 0 && p.callable {
                        // the same variable twice in the query (fact tables and rule layers only)
                        Term::Var("$P0".to_string())
                    } else if r < 14 {
                        let t = Term::Var(format!("$P{}", vars));
                        vars += 1;
                        t
                    } else if r < 18 && p.class == QueryClass::Finite && p.name != "gen" && p.name != "natk" {
                        constant(rng)
                    } else {
                        let t = Term::Var(format!("$P{}", vars));
                        vars += 1;
                        t
                    }
                })
                .collect()
        };
        let via_text = rng.chance(1, 3);
        queries.push(QuerySpec { functor: p.name.clone(), args, class: p.class, via_text });
    }
    (ctx.clauses, queries)
}

fn gen_time(family: &str, rng: &mut Rng) -> TimeModel {
    // weights for step cost {1us, 100us, 5ms, 50ms, 300ms}
    let w: [u64; 5] = match family {
        "C05" => [12, 2, 2, 2, 1],
        "C22" => [6, 2, 3, 3, 2],
        _ => [3, 2, 4, 4, 3],
    };
    let step = [1u64, 100, 5_000, 50_000, 300_000][rng.weighted(&w)];
    let mut stalls = vec![];
    if step > 1 || rng.chance(1, 6) {
        let n = rng.below(3);
        for _ in 0..n {
            stalls.push((rng.range(1, 120), rng.range(200, 2500) * 1000));
        }
        stalls.sort();
    }
    TimeModel { step_cost_us: step, stalls }
}

fn gen_sched(family: &str, rng: &mut Rng) -> SchedPolicy {
    let w: [u64; 3] = match family {
        "C05" => [6, 2, 3],
        "C22" => [3, 3, 4],
        _ => [2, 4, 5],
    };
    match rng.weighted(&w) {
        0 => SchedPolicy::Default,
        1 => SchedPolicy::Uniform,
        _ => {
            let (num, den) = *rng.pick(&[(1u64, 100u64), (1, 20), (1, 5), (1, 2)]);
            let lens = rng.pick(&[vec![1u64, 2, 3], vec![1, 5, 20], vec![2, 20, 100], vec![1, 1, 1, 60]]).clone();
            SchedPolicy::Hold { num, den, lens }
        }
    }
}

const THINK_MS: [u64; 8] = [0, 1, 400, 999, 1000, 1001, 1500, 2500];

struct Hist<'a> {
    ops: Vec<Op>,
    next_h: usize,
    queries: &'a [QuerySpec],
    big_steps: bool,
    huge_steps: bool,
}

impl<'a> Hist<'a> {
    fn new_handle(&mut self, q: usize) -> usize {
        let h = self.next_h;
        self.next_h += 1;
        self.ops.push(Op::New { h, q, gap_ms: 0 });
        h
    }
    /// An answer-requesting operation that is safe for the query's class under this time model.
    fn ask(&mut self, rng: &mut Rng, h: usize, q: usize, w: [u64; 3]) {
        let class = self.queries[q].class;
        let mut w = w;
        match class {
            QueryClass::Finite => {}
            QueryClass::Unbounded => {
                // solve_all on nat/1 ends only by time-out, and the engine's cost per answer
                // grows with the depth: only with steps of >= 50 ms (a few dozen answers)
                if !self.huge_steps { w[2] = 0; }
            }
            QueryClass::Diverges => {
                w[0] = 0; // next_solution would never return
                if !self.big_steps { return; }
            }
        }
        if w.iter().sum::<u64>() == 0 { return; }
        let op = match rng.weighted(&w) {
            0 => Op::Next { h },
            1 => Op::Solve { h },
            _ => Op::SolveAll { h },
        };
        self.ops.push(op);
    }
    fn idle(&mut self, rng: &mut Rng) {
        self.ops.push(Op::Idle { ms: *rng.pick(&THINK_MS) });
    }
}

fn gen_history(family: &str, rng: &mut Rng, queries: &[QuerySpec], time: &TimeModel) -> Vec<Op> {
    let big_steps = time.step_cost_us >= 5_000;
    let huge_steps = time.step_cost_us >= 50_000;
    let mut hs = Hist { ops: vec![], next_h: 0, queries, big_steps, huge_steps };
    let nq = queries.len();
    match family {
        "C05" => {
            // 1..3 rounds of: build a query, drive it to exhaustion, re-ask 1..5 times with idle
            // time (stale timers, if any, fire then) in between. A query is never stepped again
            // once a newer one has been built: make_query resets the variable counter, so two
            // live searches are an unsupported use (it can recurse without bound in unify).
            let rounds = *rng.pick(&[1u64, 1, 2, 3]);
            for _ in 0..rounds {
                let q0 = rng.usize_below(nq);
                let h0 = hs.new_handle(q0);
                if rng.chance(1, 2) {
                    hs.ask(rng, h0, q0, [0, 0, 1]);
                } else {
                    let k = *rng.pick(&[1u64, 2, 3, 5, 8]);
                    for _ in 0..k {
                        hs.ask(rng, h0, q0, [4, 1, 0]);
                    }
                    if rng.chance(1, 2) {
                        hs.ask(rng, h0, q0, [0, 0, 1]);
                    }
                }
                let reasks = rng.range(1, 5);
                for _ in 0..reasks {
                    if rng.chance(1, 5) {
                        hs.idle(rng);
                    }
                    hs.ask(rng, h0, q0, [4, 3, 2]);
                }
            }
        }
        "C22" => {
            // earlier queries in all states, then a fresh query consumed to the end
            let earlier = rng.range(1, 3);
            for _ in 0..earlier {
                let q = rng.usize_below(nq);
                let h = hs.new_handle(q);
                let n = rng.range(0, 4);
                for _ in 0..n {
                    hs.ask(rng, h, q, [3, 3, 2]);
                }
                if rng.chance(1, 3) { hs.idle(rng); }
                if rng.chance(1, 4) { hs.ops.push(Op::Drop { h }); }
            }
            let q = rng.usize_below(nq);
            let h = hs.new_handle(q);
            let n = rng.range(1, 5);
            for _ in 0..n {
                hs.ask(rng, h, q, [4, 3, 2]);
                if rng.chance(1, 8) { hs.idle(rng); }
            }
        }
        _ => {
            // C23: solve / solve_all under the timer, think times that let stale timers fire
            let rounds = rng.range(1, 3);
            for _ in 0..rounds {
                let q = rng.usize_below(nq);
                let h = hs.new_handle(q);
                let n = rng.range(1, 4);
                for _ in 0..n {
                    hs.ask(rng, h, q, [1, 5, 4]);
                    if rng.chance(1, 2) { hs.idle(rng); }
                }
            }
        }
    }
    hs.ops.truncate(14);
    hs.ops
}

/// Generates one scenario for the given check family from the given stream.
pub fn gen_scenario(family: &str, rng: &mut Rng) -> Scenario {
    let feats = gen_features(family, rng);
    let mut time = gen_time(family, rng);
    let mut sched = gen_sched(family, rng);
    // a share of every batch is the fault-free control configuration
    let fault_free = rng.chance(1, 5);
    if fault_free {
        time = TimeModel { step_cost_us: 1, stalls: vec![] };
        sched = SchedPolicy::Default;
    }
    let allow_diverger = time.step_cost_us >= 5_000;
    let (clauses, queries) = gen_program(rng, &feats, allow_diverger);
    let mut history = gen_history(family, rng, &queries, &time);
    // the knowledge base grows between queries (a clause for a queried predicate is added before
    // some query is built): one scenario in four for C22, one in eight otherwise
    let mut extra_clauses: Vec<Clause> = vec![];
    let grow = if family == "C22" { rng.chance(1, 4) } else { rng.chance(1, 8) };
    if grow {
        let n = rng.range(1, 2);
        for _ in 0..n {
            let news: Vec<(usize, usize)> =
                history.iter().enumerate().filter_map(|(i, op)| if let Op::New { q, .. } = op { Some((i, *q)) } else { None }).collect();
            if news.is_empty() || history.len() >= 16 {
                break;
            }
            let (at, q) = *rng.pick(&news);
            let spec = &queries[q];
            if spec.class != QueryClass::Finite || spec.functor == "mem" {
                continue;
            }
            let args: Vec<Term> = (0..spec.args.len()).map(|_| constant(rng)).collect();
            let body = if rng.chance(1, 4) { Some(GoalSpec::Print(vec![Term::atom("+")])) } else { None };
            extra_clauses.push(Clause { functor: spec.functor.clone(), args, body });
            // before the New of some instance of that query
            history.insert(at, Op::Assert { c: extra_clauses.len() - 1 });
        }
    }
    // the knowledge base is replaced in place by a different program with the same shape (the
    // same variable is loaded again): one scenario in six for C22, one in twelve otherwise
    let reload = if family == "C22" { rng.chance(1, 6) } else { rng.chance(1, 12) };
    if reload {
        let news: Vec<usize> = history.iter().enumerate().filter_map(|(i, op)| if let Op::New { .. } = op { Some(i) } else { None }).collect();
        // not before the first query: something must have run against the program replaced
        if news.len() >= 2 && history.len() < 18 {
            let at = news[1 + rng.usize_below(news.len() - 1)];
            history.insert(at, Op::Reload);
            if rng.chance(1, 3) && history.len() < 18 {
                // and back again later
                let later: Vec<usize> = history.iter().enumerate().filter_map(|(i, op)| if i > at + 1 && matches!(op, Op::New { .. }) { Some(i) } else { None }).collect();
                if !later.is_empty() {
                    let at2 = *rng.pick(&later);
                    history.insert(at2, Op::Reload);
                }
            }
        }
    }
    // the stop button: stop_query() between two operations, or at the k-th goal attempt of the
    // next search (one scenario in five for C05, one in eight otherwise; never in the fault-free
    // control configuration)
    let stops = if family == "C05" { rng.chance(1, 5) } else { rng.chance(1, 8) };
    if stops && !fault_free {
        let n = rng.range(1, 2);
        for _ in 0..n {
            let asks: Vec<usize> =
                history.iter().enumerate().filter_map(|(i, op)| if matches!(op, Op::Next { .. } | Op::Solve { .. } | Op::SolveAll { .. }) { Some(i) } else { None }).collect();
            if asks.is_empty() || history.len() >= 18 {
                break;
            }
            let at = *rng.pick(&asks);
            let after = if rng.chance(1, 3) { 0 } else { *rng.pick(&[1u64, 2, 3, 5, 8, 13, 30, 100, 400]) };
            history.insert(at, Op::Stop { after });
        }
    }
    // a moment passes between make_query and make_base_node (C23 and C22 families)
    if family != "C05" {
        for op in history.iter_mut() {
            if let Op::New { gap_ms, .. } = op {
                if rng.chance(1, 6) {
                    *gap_ms = *rng.pick(&THINK_MS);
                }
            }
        }
    }
    let sched_seed = rng.next_u64();
    let post_check = rng.chance(1, 3);
    Scenario { family: family.to_string(), clauses, queries, extra_clauses, history, time, sched, sched_seed, post_check, fault_free }
}
