//! A scenario is everything one simulated run needs, spelled out explicitly so
//! that a replay file does not need the generator: program, queries, the
//! history of API calls, the time model and the schedule policy.

use crate::ast::*;
use serde::{Deserialize, Serialize};
use std::collections::BTreeMap;

/// One API call of the simulated user thread. `h` names a query instance
/// (handle) created by `New`; operations on a handle that does not exist
/// (never created, or dropped) are skipped, which lets the minimiser delete
/// operations freely.
#[derive(Serialize, Deserialize, Clone, Debug, PartialEq, Eq, Hash)]
pub enum Op {
    /// make_query(..) + make_base_node(..) for query spec `q`; `gap_ms` virtual milliseconds pass
    /// between the two calls (the query is built, and its base node is made a moment later).
    New {
        h: usize,
        q: usize,
        #[serde(default)]
        gap_ms: u64,
    },
    /// add_rules(kb, extra_clauses[c]): the knowledge base grows between queries. Every query
    /// instance is dropped first (instances borrow the knowledge base).
    Assert { c: usize },
    /// The knowledge base is replaced, in place (the same variable, the same address), by the
    /// other of two programs: the scenario's clauses, or `Scenario::alt_clauses()` — the same
    /// predicates with the same number of clauses each, the constants of the fact tables rotated.
    /// Clauses added by Assert are gone. Every query instance is dropped first.
    Reload,
    /// next_solution(handle)
    Next { h: usize },
    /// solve(handle)
    Solve { h: usize },
    /// solve_all(handle)
    SolveAll { h: usize },
    /// stop_query(): the application's stop button. `after == 0`: called by the user thread here,
    /// between two operations. `after == k > 0`: armed here, and called at the k-th goal attempt
    /// of the next answer-requesting operation (another thread of the application presses the
    /// button while the search runs); disarmed when that operation ends earlier.
    Stop {
        #[serde(default)]
        after: u64,
    },
    /// The user thread does nothing for `ms` virtual milliseconds.
    Idle { ms: u64 },
    /// The handle (solution node and query) is dropped.
    Drop { h: usize },
}

#[derive(Serialize, Deserialize, Clone, Debug, PartialEq, Eq, Hash)]
pub struct TimeModel {
    /// Virtual microseconds charged for every goal attempt (query_stopped probe).
    pub step_cost_us: u64,
    /// (solver step number within the run, extra microseconds): the solver thread stalls.
    pub stalls: Vec<(u64, u64)>,
}

/// How the seeded scheduler chooses among runnable tasks at a choice point
/// (a scheduling point with at least two runnable tasks).
///
/// The *default* choice is "a runnable timer thread runs before the solver
/// thread" (an idle core picks a woken thread up at once). Every policy is
/// recorded as its deviations from that default, which is also the form in
/// which a schedule is replayed and minimised.
#[derive(Serialize, Deserialize, Clone, Debug, PartialEq, Eq, Hash)]
pub enum SchedPolicy {
    /// No deviations: the fault-free schedule.
    Default,
    /// Uniform choice among the runnable tasks at every choice point.
    Uniform,
    /// With probability num/den, when the default choice is a timer thread, that
    /// thread is held back (not scheduled unless nothing else can run) for a
    /// number of choice points drawn from `lens`.
    Hold { num: u64, den: u64, lens: Vec<u64> },
    /// Replay: choice point number -> task to run (if runnable), default elsewhere.
    Scripted { deviations: BTreeMap<u64, usize> },
}

#[derive(Serialize, Deserialize, Clone, Debug, PartialEq, Eq, Hash)]
pub struct Scenario {
    /// Which check generated it ("C05", "C22", "C23") — the generator's bias, not the oracle.
    pub family: String,
    pub clauses: Vec<Clause>,
    pub queries: Vec<QuerySpec>,
    /// clauses that `Op::Assert` adds to the knowledge base during the history
    #[serde(default)]
    pub extra_clauses: Vec<Clause>,
    pub history: Vec<Op>,
    pub time: TimeModel,
    pub sched: SchedPolicy,
    pub sched_seed: u64,
    /// After the history and the drain, build and run every query once more
    /// with next_solution (no reset of globals) and compare with the baseline.
    pub post_check: bool,
    /// Is this a fault-free configuration (no reachable deadline, default schedule)?
    pub fault_free: bool,
}

impl Scenario {
    pub fn program_text(&self) -> Vec<String> {
        self.clauses.iter().map(|c| c.to_string()).collect()
    }
    pub fn query_text(&self) -> Vec<String> {
        self.queries.iter().map(|q| q.to_string()).collect()
    }
    /// The other program of `Op::Reload`: the fact tables' atoms and small integers rotated
    /// (a -> b -> c -> a, 1 -> 2 -> 3 -> 1), everything else as it is.
    pub fn alt_clauses(&self) -> Vec<Clause> {
        fn rot(t: &Term) -> Term {
            match t {
                Term::Atom(a) if a == "a" => Term::atom("b"),
                Term::Atom(a) if a == "b" => Term::atom("c"),
                Term::Atom(a) if a == "c" => Term::atom("a"),
                Term::Int(i) if (1..=3).contains(i) => Term::Int(i % 3 + 1),
                Term::Cplx(n, args) => Term::Cplx(n.clone(), args.iter().map(rot).collect()),
                other => other.clone(),
            }
        }
        self.clauses
            .iter()
            .map(|c| {
                let table = c.body.is_none() && c.functor.starts_with('f') && c.functor[1..].chars().all(|ch| ch.is_ascii_digit());
                if table {
                    Clause { functor: c.functor.clone(), args: c.args.iter().map(rot).collect(), body: None }
                } else {
                    c.clone()
                }
            })
            .collect()
    }
    /// Size measure used by the minimiser.
    pub fn size(&self) -> usize {
        let dev = match &self.sched {
            SchedPolicy::Scripted { deviations } => deviations.len(),
            _ => 0,
        };
        self.history.len() * 8
            + self.clauses.iter().map(|c| 2 + c.args.len() + c.body.as_ref().map(|b| b.size()).unwrap_or(0)).sum::<usize>()
            + self.queries.len() * 2
            + self.time.stalls.len() * 2
            + dev
    }
}
