//! Program text generator and layout renderer for the file-load simulator (also used by the
//! Miri corpus to drive the parsers).
//!
//! A program is a list of rule texts, each accepted by suiron's parse_rule
//! (candidates that the parser rejects or panics on are dropped — what the
//! parser accepts is not this simulator's business). The renderer lays the
//! program out as file bytes with random *legal* layout and remembers, for
//! every byte, whether it is rule text (and of which rule) or decoration, so
//! that the oracle can say what a truncated file should contain.

use serde::{Deserialize, Serialize};
use crate::rng::Rng;

const ATOMS: [&str; 16] = ["a", "b", "c", "Alfred", "Edward", "red apple", "x1", "harold_2", "north", "pie", "café", "Æthelstan", "Henry V", "Mr T", "Harold II", "two  blanks"];
const PREDS: [&str; 8] = ["f", "g", "parent", "loves", "edge", "q", "size", "kind"];
const VARS: [&str; 5] = ["$X", "$Y", "$Z", "$Who", "$T"];

fn atom(rng: &mut Rng) -> String {
    rng.pick(&ATOMS).to_string()
}

fn var(rng: &mut Rng) -> String {
    rng.pick(&VARS).to_string()
}

/// A term; `floats` allows float literals (inside parentheses they are harmless; the caller
/// decides whether they may appear at bracket depth 0).
fn term(rng: &mut Rng, depth: usize, floats: bool) -> String {
    let w: [u64; 8] = [6, 3, if floats { 2 } else { 0 }, 5, if depth > 0 { 2 } else { 0 }, if depth > 0 { 2 } else { 0 }, 1, if floats { 1 } else { 0 }];
    match rng.weighted(&w) {
        // a quoted string (only where the caller is inside parentheses: `floats` marks that)
        7 => format!("\"{}\"", rng.pick(&["Hello, world", "yes", "a, b, c", "one. two", "x; y", "Name  Age", "tab\there"])),
        0 => atom(rng),
        1 => rng.range(0, 40).to_string(),
        2 => format!("{}.{}", rng.range(0, 9), rng.range(1, 99)),
        3 => var(rng),
        4 => {
            let n = rng.range(0, 3);
            let mut items: Vec<String> = (0..n).map(|_| term(rng, depth - 1, floats)).collect();
            if !items.is_empty() && rng.chance(1, 3) {
                let t = var(rng);
                let last = items.len() - 1;
                items[last] = format!("{} | {}", items[last], t);
            }
            format!("[{}]", items.join(", "))
        }
        5 => {
            let n = rng.range(1, 3);
            let args: Vec<String> = (0..n).map(|_| term(rng, depth - 1, floats)).collect();
            format!("{}({})", rng.pick(&PREDS), args.join(", "))
        }
        _ => "$_".to_string(),
    }
}

fn complex(rng: &mut Rng, floats: bool) -> String {
    let n = rng.range(0, 3);
    let name = rng.pick(&PREDS);
    if n == 0 {
        return name.to_string();
    }
    let args: Vec<String> = (0..n).map(|_| term(rng, 2, floats)).collect();
    format!("{}({})", name, args.join(", "))
}

/// One goal of a rule body. `top_floats`: float literals may appear at bracket depth 0
/// (class L2: the splitter is documented to end a rule at any top-level period).
fn goal(rng: &mut Rng, depth: usize, top_floats: bool) -> String {
    let w: [u64; 10] = [10, 3, 3, 2, 2, 1, 1, 1, if depth > 0 { 2 } else { 0 }, 1];
    match rng.weighted(&w) {
        0 => complex(rng, true),
        1 => {
            // unification, infix
            let r = if top_floats && rng.chance(1, 2) { format!("{}.{}", rng.range(0, 9), rng.range(1, 99)) } else { term(rng, 1, false) };
            format!("{} = {}", var(rng), r)
        }
        2 => {
            let op = rng.pick(&["==", ">", "<", ">=", "<="]);
            let r = if top_floats && rng.chance(1, 2) { format!("{}.{}", rng.range(0, 9), rng.range(1, 99)) } else { rng.range(0, 40).to_string() };
            format!("{} {} {}", var(rng), op, r)
        }
        3 => {
            let op = rng.pick(&["+", "-", "*", "/"]);
            format!("{} = {} {} {}", var(rng), var(rng), op, rng.range(1, 9))
        }
        4 => {
            let fmt = rng.pick(&["value %s", "%s and %s", "hello", "rank: %s."]);
            let n = rng.range(0, 2);
            let mut args = vec![fmt.to_string()];
            for _ in 0..n {
                args.push(var(rng));
            }
            format!("print({})", args.join(", "))
        }
        5 => "nl".to_string(),
        6 => "!".to_string(),
        7 => "fail".to_string(),
        8 => format!("not({})", goal(rng, depth - 1, false)),
        _ => format!("append({}, {}, {})", term(rng, 1, false), term(rng, 1, false), var(rng)),
    }
}

fn rule_text(rng: &mut Rng, top_floats: bool) -> String {
    let head = complex(rng, true);
    if rng.chance(2, 5) {
        return format!("{}.", head);
    }
    let n = rng.range(1, 4);
    let sep = if rng.chance(1, 4) { "; " } else { ", " };
    let goals: Vec<String> = (0..n).map(|_| goal(rng, 1, top_floats)).collect();
    format!("{} :- {}.", head, goals.join(sep))
}

#[derive(Serialize, Deserialize, Clone, Debug, PartialEq, Eq)]
pub struct Program {
    pub rules: Vec<String>,
    /// float literals (periods) occur at bracket depth 0 in some rule
    pub l2: bool,
}

/// True iff a period other than the final one occurs at bracket depth 0.
pub fn has_top_level_period(rule: &str) -> bool {
    let mut round = 0i32;
    let mut square = 0i32;
    let chars: Vec<char> = rule.chars().collect();
    for (i, ch) in chars.iter().enumerate() {
        match ch {
            '(' => round += 1,
            ')' => round -= 1,
            '[' => square += 1,
            ']' => square -= 1,
            '.' if round == 0 && square == 0 && i + 1 != chars.len() => return true,
            _ => {}
        }
    }
    false
}

pub fn gen_program(rng: &mut Rng, accept: &dyn Fn(&str) -> bool) -> Program {
    let want_l2 = rng.chance(1, 5);
    let n = *rng.pick(&[1u64, 2, 3, 3, 5, 8, 12, 20, 40]);
    let mut rules = vec![];
    let mut tries = 0;
    while (rules.len() as u64) < n && tries < 400 {
        tries += 1;
        let r = rule_text(rng, want_l2);
        if accept(&r) {
            rules.push(r);
        }
    }
    if rules.is_empty() {
        rules.push("f(a).".to_string());
    }
    let l2 = rules.iter().any(|r| has_top_level_period(r));
    Program { rules, l2 }
}

// ---------------------------------------------------------------------------------------------
// layout
// ---------------------------------------------------------------------------------------------

#[derive(Serialize, Deserialize, Clone, Debug, PartialEq, Eq)]
pub enum PieceKind {
    /// text of rule number `rule`
    Code { rule: usize },
    /// spaces, tabs, line ends, comments
    Decoration,
}

#[derive(Serialize, Deserialize, Clone, Debug, PartialEq, Eq)]
pub struct Piece {
    pub kind: PieceKind,
    pub text: String,
}

#[derive(Serialize, Deserialize, Clone, Debug, PartialEq, Eq, Hash, PartialOrd, Ord)]
pub enum LayoutClass {
    /// line breaks only at bracket depth 0: must load
    Plain,
    /// some line break inside parentheses or brackets (after a comma)
    Deep,
    /// additionally a comment follows, on a line that began inside parentheses or brackets
    Crossing,
}

#[derive(Serialize, Deserialize, Clone, Debug, PartialEq, Eq)]
pub struct Rendered {
    pub pieces: Vec<Piece>,
    pub class: LayoutClass,
    pub crlf: bool,
    pub line_breaks_in_rules: usize,
    pub comments: usize,
    pub blank_lines: usize,
}

impl Rendered {
    pub fn bytes(&self) -> Vec<u8> {
        let mut out = vec![];
        for p in &self.pieces {
            out.extend_from_slice(p.text.as_bytes());
        }
        out
    }
}

#[derive(Serialize, Deserialize, Clone, Debug, PartialEq, Eq)]
pub struct LayoutOpts {
    pub break_num: u64,
    pub break_den: u64,
    pub deep: bool,
    pub crossing: bool,
    pub comment_num: u64,
    pub comment_den: u64,
    pub crlf: bool,
    pub final_newline: bool,
    pub several_per_line: bool,
    /// byte length of one very long comment line at the top of the file (0 = none): lines around
    /// and beyond the usual buffer sizes (8 KiB, 64 KiB)
    #[serde(default)]
    pub long_line: usize,
}

pub fn gen_layout(rng: &mut Rng) -> LayoutOpts {
    let (break_num, break_den) = *rng.pick(&[(0u64, 1u64), (1, 4), (1, 2), (9, 10)]);
    let deep = rng.chance(1, 4);
    LayoutOpts {
        break_num,
        break_den,
        deep,
        crossing: deep && rng.chance(1, 3),
        comment_num: *rng.pick(&[0u64, 1, 1, 2]),
        comment_den: 4,
        crlf: rng.chance(1, 5),
        final_newline: rng.chance(4, 5),
        several_per_line: rng.chance(1, 5),
        long_line: if rng.chance(1, 40) { *rng.pick(&[8191usize, 8192, 8193, 16385, 65535, 65536, 65537, 70001]) } else { 0 },
    }
}

fn comment(rng: &mut Rng) -> String {
    let lead = rng.pick(&["#", "%", "//", "# ", "% ", "// "]);
    let body = rng.pick(&["note", "a, b. (c", "TODO: fix] this", "50% of [it", "see f(x).", "", "x = y + 1", "größe — 日本語", "naïve(x)."]);
    format!("{}{}", lead, body)
}

/// Positions (byte index just after the character) at which a rule may be split, with the
/// bracket depth there.
fn break_points(rule: &str) -> Vec<(usize, i32)> {
    let b = rule.as_bytes();
    let mut depth = 0i32;
    let mut out = vec![];
    let mut i = 0;
    while i < b.len() {
        let c = b[i] as char;
        match c {
            '(' | '[' => depth += 1,
            ')' | ']' => depth -= 1,
            ',' | ';' => out.push((i + 1, depth)),
            '-' if i > 0 && b[i - 1] == b':' => out.push((i + 1, depth)),
            '=' => {
                // the unification sign only: not ==, >=, <=
                let prev = if i > 0 { b[i - 1] as char } else { ' ' };
                let next = if i + 1 < b.len() { b[i + 1] as char } else { ' ' };
                if prev != '=' && prev != '>' && prev != '<' && next != '=' && depth == 0 {
                    out.push((i + 1, depth));
                }
            }
            _ => {}
        }
        i += 1;
    }
    out
}

pub fn render(rng: &mut Rng, prog: &Program, o: &LayoutOpts) -> Rendered {
    let nl = if o.crlf { "\r\n" } else { "\n" };
    let mut pieces: Vec<Piece> = vec![];
    let mut class = LayoutClass::Plain;
    let mut line_breaks = 0;
    let mut comments = 0;
    let mut blanks = 0;
    let deco = |pieces: &mut Vec<Piece>, s: String| {
        if !s.is_empty() {
            pieces.push(Piece { kind: PieceKind::Decoration, text: s });
        }
    };
    // one very long comment line whose text would be facts if it were not a comment
    if o.long_line > 0 {
        let mut line = String::from(*rng.pick(&["#", "% ", "//"]));
        while line.len() + 6 <= o.long_line {
            line.push_str(" k(a).");
        }
        while line.len() < o.long_line {
            line.push('x');
        }
        deco(&mut pieces, format!("{}{}", line, nl));
        comments += 1;
    }
    // leading decoration
    if rng.chance(1, 4) {
        deco(&mut pieces, format!("{}{}", comment(rng), nl));
        comments += 1;
    }
    for (ri, rule) in prog.rules.iter().enumerate() {
        // the line on which this rule starts began at depth 0
        let mut line_started_inside = false;
        let bps = break_points(rule);
        let mut last = 0usize;
        for (pos, depth) in bps {
            if depth > 0 && !o.deep {
                continue;
            }
            if !rng.chance(o.break_num, o.break_den) {
                continue;
            }
            // code up to the break point
            pieces.push(Piece { kind: PieceKind::Code { rule: ri }, text: rule[last..pos].to_string() });
            last = pos;
            // skip the blanks that followed in the original text: they become decoration
            let mut trail = String::new();
            if rng.chance(1, 3) {
                trail.push_str(*rng.pick(&[" ", "  ", "\t"]));
            }
            // a comment is legal here iff we are outside all parentheses and brackets
            let comment_ok = depth == 0 && (!line_started_inside || o.crossing);
            if comment_ok && rng.chance(o.comment_num, o.comment_den) {
                trail.push_str(&format!(" {}", comment(rng)));
                comments += 1;
                if line_started_inside {
                    class = LayoutClass::Crossing;
                }
            }
            trail.push_str(nl);
            line_breaks += 1;
            if depth > 0 && class == LayoutClass::Plain {
                class = LayoutClass::Deep;
            }
            // blank lines are legal anywhere, also while a parenthesis is open
            if depth > 0 && rng.chance(1, 5) {
                trail.push_str(*rng.pick(&["", "  ", "\t"]));
                trail.push_str(nl);
                blanks += 1;
            }
            // own-line comments are only placed between lines at depth 0
            if depth == 0 {
                if rng.chance(1, 8) {
                    trail.push_str(nl);
                    blanks += 1;
                }
                if rng.chance(o.comment_num, o.comment_den * 2) {
                    trail.push_str(&format!("  {}{}", comment(rng), nl));
                    comments += 1;
                }
            }
            trail.push_str(*rng.pick(&["", "  ", "    ", "\t"]));
            deco(&mut pieces, trail);
            line_started_inside = depth > 0;
        }
        pieces.push(Piece { kind: PieceKind::Code { rule: ri }, text: rule[last..].to_string() });
        // end of rule: same line or new line
        let is_last = ri + 1 == prog.rules.len();
        let mut trail = String::new();
        if o.several_per_line && !is_last && rng.chance(1, 2) {
            trail.push(' ');
        } else {
            let comment_ok = !line_started_inside || o.crossing;
            if comment_ok && rng.chance(o.comment_num, o.comment_den) {
                trail.push_str(&format!("  {}", comment(rng)));
                comments += 1;
                if line_started_inside {
                    class = LayoutClass::Crossing;
                }
            }
            if !is_last || o.final_newline {
                trail.push_str(nl);
            }
            if !is_last {
                if rng.chance(1, 6) {
                    trail.push_str(nl);
                    blanks += 1;
                }
                if rng.chance(o.comment_num, o.comment_den * 2) {
                    trail.push_str(&format!("{}{}", comment(rng), nl));
                    comments += 1;
                }
            }
        }
        deco(&mut pieces, trail);
    }
    Rendered { pieces, class, crlf: o.crlf, line_breaks_in_rules: line_breaks, comments, blank_lines: blanks }
}
