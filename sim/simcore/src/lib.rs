//! simcore — shared core of the simulators: the seeded PRNG, scenario types,
//! the scenario generator, and conversion of scenarios to suiron values.
pub mod ast;
pub mod gen;
pub mod rng;
pub mod scenario;
pub mod textgen;
