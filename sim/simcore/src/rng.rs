//! The only source of randomness in the simulators: xoshiro256** seeded through
//! splitmix64 from (VERIF_SEED, stream label, run index). No other generator,
//! clock or hash-order is ever consulted, so one integer decides everything.

#[derive(Clone, Debug)]
pub struct Rng {
    s: [u64; 4],
}

fn splitmix64(x: &mut u64) -> u64 {
    *x = x.wrapping_add(0x9E37_79B9_7F4A_7C15);
    let mut z = *x;
    z = (z ^ (z >> 30)).wrapping_mul(0xBF58_476D_1CE4_E5B9);
    z = (z ^ (z >> 27)).wrapping_mul(0x94D0_49BB_1331_11EB);
    z ^ (z >> 31)
}

pub fn fnv1a(bytes: &[u8]) -> u64 {
    let mut h: u64 = 0xcbf2_9ce4_8422_2325;
    for b in bytes {
        h ^= *b as u64;
        h = h.wrapping_mul(0x0000_0100_0000_01b3);
    }
    h
}

impl Rng {
    pub fn new(seed: u64) -> Rng {
        let mut x = seed;
        let s = [splitmix64(&mut x), splitmix64(&mut x), splitmix64(&mut x), splitmix64(&mut x)];
        Rng { s }
    }

    /// Independent stream for (seed, label, index): the result does not depend
    /// on how runs are distributed over worker processes.
    pub fn split(seed: u64, label: &str, index: u64) -> Rng {
        let mut x = seed ^ fnv1a(label.as_bytes()).rotate_left(17);
        let a = splitmix64(&mut x);
        let mut y = a ^ index.wrapping_mul(0xD1B5_4A32_D192_ED03);
        let b = splitmix64(&mut y);
        Rng::new(a ^ b.rotate_left(29) ^ index)
    }

    pub fn next_u64(&mut self) -> u64 {
        let result = self.s[1].wrapping_mul(5).rotate_left(7).wrapping_mul(9);
        let t = self.s[1] << 17;
        self.s[2] ^= self.s[0];
        self.s[3] ^= self.s[1];
        self.s[1] ^= self.s[2];
        self.s[0] ^= self.s[3];
        self.s[2] ^= t;
        self.s[3] = self.s[3].rotate_left(45);
        result
    }

    /// Uniform in 0..n (n > 0).
    pub fn below(&mut self, n: u64) -> u64 {
        debug_assert!(n > 0);
        // multiply-shift; bias is negligible for the small n used here
        ((self.next_u64() as u128 * n as u128) >> 64) as u64
    }

    pub fn usize_below(&mut self, n: usize) -> usize {
        self.below(n as u64) as usize
    }

    /// Uniform in lo..=hi.
    pub fn range(&mut self, lo: u64, hi: u64) -> u64 {
        lo + self.below(hi - lo + 1)
    }

    /// True with probability num/den.
    pub fn chance(&mut self, num: u64, den: u64) -> bool {
        self.below(den) < num
    }

    pub fn pick<'a, T>(&mut self, items: &'a [T]) -> &'a T {
        &items[self.usize_below(items.len())]
    }

    /// Index drawn with the given integer weights.
    pub fn weighted(&mut self, weights: &[u64]) -> usize {
        let total: u64 = weights.iter().sum();
        debug_assert!(total > 0);
        let mut x = self.below(total);
        for (i, w) in weights.iter().enumerate() {
            if x < *w {
                return i;
            }
            x -= *w;
        }
        weights.len() - 1
    }

    pub fn shuffle<T>(&mut self, items: &mut [T]) {
        for i in (1..items.len()).rev() {
            let j = self.usize_below(i + 1);
            items.swap(i, j);
        }
    }
}

#[cfg(test)]
mod test {
    use super::*;
    #[test]
    fn streams_differ_and_repeat() {
        let mut a = Rng::split(1, "C05", 0);
        let mut b = Rng::split(1, "C05", 0);
        let mut c = Rng::split(1, "C05", 1);
        let mut d = Rng::split(1, "C22", 0);
        let xa: Vec<u64> = (0..4).map(|_| a.next_u64()).collect();
        let xb: Vec<u64> = (0..4).map(|_| b.next_u64()).collect();
        let xc: Vec<u64> = (0..4).map(|_| c.next_u64()).collect();
        let xd: Vec<u64> = (0..4).map(|_| d.next_u64()).collect();
        assert_eq!(xa, xb);
        assert_ne!(xa, xc);
        assert_ne!(xa, xd);
    }
}
