//! Scenario-side representation of programs and queries, and their
//! conversion to suiron values through suiron's public constructors (never
//! through the text parser, which drops goals when `,` `;` and `not` are
//! mixed — a scenario must contain the operators it says it contains).

use serde::{Deserialize, Serialize};
use std::fmt;
use suiron::*;

#[derive(Serialize, Deserialize, Clone, Debug, PartialEq, Eq, Hash)]
pub enum Term {
    Atom(String),
    Int(i64),
    /// a float literal, kept as text ("2.5") so that scenarios stay Eq + Hash
    Float(String),
    Var(String),
    Anon,
    /// [t1, t2, ... | $Tail]
    List(Vec<Term>, Option<String>),
    /// add(t1, t2) etc. (suiron function term)
    Func(String, Vec<Term>),
    /// pair(t1, t2): a complex term used as an argument
    Cplx(String, Vec<Term>),
}

#[derive(Serialize, Deserialize, Clone, Debug, PartialEq, Eq, Hash)]
pub enum GoalSpec {
    Call(String, Vec<Term>),
    And(Vec<GoalSpec>),
    Or(Vec<GoalSpec>),
    Not(Box<GoalSpec>),
    /// time(G): runs G once and prints the elapsed (real) time — the harness masks the figures
    Time(Box<GoalSpec>),
    Unify(Term, Term),
    /// functor is one of equal, less_than, less_than_or_equal, greater_than, greater_than_or_equal
    Cmp(String, Term, Term),
    Print(Vec<Term>),
    /// any other built-in predicate with arguments (count, append, print_list)
    BuiltIn(String, Vec<Term>),
    Nl,
    Cut,
    Fail,
}

#[derive(Serialize, Deserialize, Clone, Debug, PartialEq, Eq, Hash)]
pub struct Clause {
    pub functor: String,
    pub args: Vec<Term>,
    pub body: Option<GoalSpec>,
}

/// How a query is expected to behave, by construction of the generator.
#[derive(Serialize, Deserialize, Clone, Copy, Debug, PartialEq, Eq, Hash)]
pub enum QueryClass {
    /// Terminates after finitely many answers within the baseline step cap.
    Finite,
    /// Infinitely many answers, each after a bounded search (nat/1 style).
    Unbounded,
    /// No answer, no output, and no end within any budget (w^d >= 10^9 goal attempts).
    Diverges,
}

#[derive(Serialize, Deserialize, Clone, Debug, PartialEq, Eq, Hash)]
pub struct QuerySpec {
    pub functor: String,
    pub args: Vec<Term>,
    pub class: QueryClass,
    /// build the query with parse_query(text) instead of make_query(terms)
    #[serde(default)]
    pub via_text: bool,
}

impl Term {
    pub fn atom(s: &str) -> Term {
        Term::Atom(s.to_string())
    }
    pub fn var(s: &str) -> Term {
        Term::Var(s.to_string())
    }
    pub fn to_suiron(&self) -> Unifiable {
        match self {
            Term::Atom(s) => Unifiable::Atom(s.clone()),
            Term::Int(i) => Unifiable::SInteger(*i),
            Term::Float(t) => Unifiable::SFloat(t.parse::<f64>().unwrap_or(0.5)),
            Term::Var(name) => Unifiable::LogicVar { id: 0, name: name.clone() },
            Term::Anon => Unifiable::Anonymous,
            Term::List(items, tail) => {
                let mut terms: Vec<Unifiable> = items.iter().map(|t| t.to_suiron()).collect();
                match tail {
                    Some(name) => {
                        terms.push(Unifiable::LogicVar { id: 0, name: name.clone() });
                        make_linked_list(true, terms)
                    }
                    None => make_linked_list(false, terms),
                }
            }
            Term::Func(name, args) => Unifiable::SFunction {
                name: name.clone(),
                terms: args.iter().map(|t| t.to_suiron()).collect(),
            },
            Term::Cplx(name, args) => {
                let mut terms = vec![Unifiable::Atom(name.clone())];
                terms.extend(args.iter().map(|t| t.to_suiron()));
                Unifiable::SComplex(terms)
            }
        }
    }
}

impl GoalSpec {
    pub fn to_suiron(&self) -> Goal {
        match self {
            GoalSpec::Call(f, args) => {
                let mut terms = vec![Unifiable::Atom(f.clone())];
                terms.extend(args.iter().map(|t| t.to_suiron()));
                Goal::ComplexGoal(Unifiable::SComplex(terms))
            }
            GoalSpec::And(gs) => Goal::OperatorGoal(Operator::And(gs.iter().map(|g| g.to_suiron()).collect())),
            GoalSpec::Or(gs) => Goal::OperatorGoal(Operator::Or(gs.iter().map(|g| g.to_suiron()).collect())),
            GoalSpec::Not(g) => Goal::OperatorGoal(Operator::Not(vec![g.to_suiron()])),
            GoalSpec::Time(g) => Goal::OperatorGoal(Operator::Time(vec![g.to_suiron()])),
            GoalSpec::Unify(a, b) => Goal::BuiltInGoal(BuiltInPredicate::new(
                "unify".to_string(),
                Some(vec![a.to_suiron(), b.to_suiron()]),
            )),
            GoalSpec::Cmp(op, a, b) => {
                Goal::BuiltInGoal(BuiltInPredicate::new(op.clone(), Some(vec![a.to_suiron(), b.to_suiron()])))
            }
            GoalSpec::Print(ts) => Goal::BuiltInGoal(BuiltInPredicate::new(
                "print".to_string(),
                Some(ts.iter().map(|t| t.to_suiron()).collect()),
            )),
            GoalSpec::BuiltIn(name, ts) => {
                Goal::BuiltInGoal(BuiltInPredicate::new(name.clone(), Some(ts.iter().map(|t| t.to_suiron()).collect())))
            }
            GoalSpec::Nl => Goal::BuiltInGoal(BuiltInPredicate::new("nl".to_string(), None)),
            GoalSpec::Cut => Goal::BuiltInGoal(BuiltInPredicate::new("!".to_string(), None)),
            GoalSpec::Fail => Goal::BuiltInGoal(BuiltInPredicate::new("fail".to_string(), None)),
        }
    }

    /// Number of goal nodes in this body (size measure used by the minimiser and evidence).
    pub fn size(&self) -> usize {
        match self {
            GoalSpec::And(gs) | GoalSpec::Or(gs) => 1 + gs.iter().map(|g| g.size()).sum::<usize>(),
            GoalSpec::Not(g) | GoalSpec::Time(g) => 1 + g.size(),
            _ => 1,
        }
    }

    pub fn contains(&self, pred: &dyn Fn(&GoalSpec) -> bool) -> bool {
        if pred(self) {
            return true;
        }
        match self {
            GoalSpec::And(gs) | GoalSpec::Or(gs) => gs.iter().any(|g| g.contains(pred)),
            GoalSpec::Not(g) | GoalSpec::Time(g) => g.contains(pred),
            _ => false,
        }
    }
}

impl Clause {
    pub fn to_suiron(&self) -> Rule {
        let mut terms = vec![Unifiable::Atom(self.functor.clone())];
        terms.extend(self.args.iter().map(|t| t.to_suiron()));
        let head = Unifiable::SComplex(terms);
        let body = match &self.body {
            Some(b) => b.to_suiron(),
            None => Goal::Nil,
        };
        make_rule(head, body)
    }
    pub fn key(&self) -> String {
        format!("{}/{}", self.functor, self.args.len())
    }
}

impl QuerySpec {
    /// Builds the query with the public query constructor (make_query), which
    /// is what parse_query does after parsing.
    pub fn to_suiron(&self) -> Goal {
        if self.via_text {
            // the other query constructor: text -> parse_query (which ends in make_query)
            if let Ok(g) = parse_query(&self.to_string()) {
                return g;
            }
        }
        let mut terms = vec![Unifiable::Atom(self.functor.clone())];
        terms.extend(self.args.iter().map(|t| t.to_suiron()));
        make_query(terms)
    }
    pub fn key(&self) -> String {
        format!("{}/{}", self.functor, self.args.len())
    }
}

pub fn build_kb(clauses: &[Clause]) -> KnowledgeBase {
    let mut kb = KnowledgeBase::new();
    let rules: Vec<Rule> = clauses.iter().map(|c| c.to_suiron()).collect();
    add_rules(&mut kb, rules);
    kb
}

// ---------- text rendering (for people reading replay files; never parsed back) ----------

fn fmt_terms(ts: &[Term]) -> String {
    ts.iter().map(|t| t.to_string()).collect::<Vec<_>>().join(", ")
}

impl fmt::Display for Term {
    fn fmt(&self, f: &mut fmt::Formatter) -> fmt::Result {
        match self {
            Term::Atom(s) => write!(f, "{}", s),
            Term::Int(i) => write!(f, "{}", i),
            Term::Float(t) => write!(f, "{}", t),
            Term::Var(v) => write!(f, "{}", v),
            Term::Anon => write!(f, "$_"),
            Term::List(items, tail) => match tail {
                Some(t) if items.is_empty() => write!(f, "[{}]", t),
                Some(t) => write!(f, "[{} | {}]", fmt_terms(items), t),
                None => write!(f, "[{}]", fmt_terms(items)),
            },
            Term::Func(name, args) | Term::Cplx(name, args) => write!(f, "{}({})", name, fmt_terms(args)),
        }
    }
}

impl fmt::Display for GoalSpec {
    fn fmt(&self, f: &mut fmt::Formatter) -> fmt::Result {
        match self {
            GoalSpec::Call(n, args) if args.is_empty() => write!(f, "{}", n),
            GoalSpec::Call(n, args) => write!(f, "{}({})", n, fmt_terms(args)),
            GoalSpec::And(gs) => {
                write!(f, "({})", gs.iter().map(|g| g.to_string()).collect::<Vec<_>>().join(", "))
            }
            GoalSpec::Or(gs) => {
                write!(f, "({})", gs.iter().map(|g| g.to_string()).collect::<Vec<_>>().join(" ; "))
            }
            GoalSpec::Not(g) => write!(f, "not({})", g),
            GoalSpec::Time(g) => write!(f, "time({})", g),
            GoalSpec::Unify(a, b) => write!(f, "{} = {}", a, b),
            GoalSpec::Cmp(op, a, b) => {
                let sym = match op.as_str() {
                    "equal" => "==",
                    "less_than" => "<",
                    "less_than_or_equal" => "<=",
                    "greater_than" => ">",
                    "greater_than_or_equal" => ">=",
                    other => other,
                };
                write!(f, "{} {} {}", a, sym, b)
            }
            GoalSpec::Print(ts) => write!(f, "print({})", fmt_terms(ts)),
            GoalSpec::BuiltIn(name, ts) => write!(f, "{}({})", name, fmt_terms(ts)),
            GoalSpec::Nl => write!(f, "nl"),
            GoalSpec::Cut => write!(f, "!"),
            GoalSpec::Fail => write!(f, "fail"),
        }
    }
}

impl fmt::Display for Clause {
    fn fmt(&self, f: &mut fmt::Formatter) -> fmt::Result {
        let head = if self.args.is_empty() {
            self.functor.clone()
        } else {
            format!("{}({})", self.functor, fmt_terms(&self.args))
        };
        match &self.body {
            None => write!(f, "{}.", head),
            Some(GoalSpec::And(gs)) => {
                write!(f, "{} :- {}.", head, gs.iter().map(|g| g.to_string()).collect::<Vec<_>>().join(", "))
            }
            Some(GoalSpec::Or(gs)) => {
                write!(f, "{} :- {}.", head, gs.iter().map(|g| g.to_string()).collect::<Vec<_>>().join(" ; "))
            }
            Some(b) => write!(f, "{} :- {}.", head, b),
        }
    }
}

impl fmt::Display for QuerySpec {
    fn fmt(&self, f: &mut fmt::Formatter) -> fmt::Result {
        if self.args.is_empty() {
            write!(f, "{}", self.functor)
        } else {
            write!(f, "{}({})", self.functor, fmt_terms(&self.args))
        }
    }
}
