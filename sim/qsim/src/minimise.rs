//! Delta-debugging minimiser for a failing scenario. A candidate is kept only
//! if the same violation class at the same kind of operation persists
//! (`Violation::signature`). Order: history operations, clauses, clause bodies,
//! queries, time model, and finally the schedule, expressed as deviations from
//! the default schedule.

use crate::exec::*;
use crate::oracle::*;
use simcore::ast::*;
use simcore::scenario::*;
use std::collections::BTreeMap;

pub struct Failing {
    pub scenario: Scenario,
    pub violation: Violation,
    pub record: RunRecord,
}

/// Runs the scenario and returns the first violation of `property`.
pub fn run_and_judge(property: &str, scn: &Scenario, trace: bool) -> Result<(RunRecord, Vec<Violation>), String> {
    let opts = ExecOpts { trace, step_budget: 15_000, baseline_step_cap: 8_000 };
    match execute(scn, opts) {
        RunOutcome::HarnessError(e) => Err(e),
        RunOutcome::Done(rec) => {
            if rec.discard.is_some() {
                return Ok((rec, vec![]));
            }
            let j = judge(property, scn, &rec);
            Ok((rec, j.violations))
        }
    }
}

/// The scenario with its schedule pinned to the deviations recorded in `rec`.
pub fn pin_schedule(scn: &Scenario, rec: &RunRecord) -> Scenario {
    let mut s = scn.clone();
    s.sched = SchedPolicy::Scripted { deviations: rec.deviations.clone() };
    s
}

struct Minimiser<'a> {
    property: &'a str,
    signature: String,
    /// generative policy of the original run, used to re-find the interleaving after the
    /// program or history changed (choice-point numbers shift)
    original_policy: SchedPolicy,
    original_seed: u64,
    tests: u64,
}

impl<'a> Minimiser<'a> {
    fn fails(&mut self, cand: &Scenario) -> Option<Failing> {
        self.tests += 1;
        let mut tries: Vec<Scenario> = vec![cand.clone()];
        if !matches!(self.original_policy, SchedPolicy::Scripted { .. } | SchedPolicy::Default) {
            for k in 0..3u64 {
                let mut c = cand.clone();
                c.sched = self.original_policy.clone();
                c.sched_seed = self.original_seed.wrapping_add(k);
                tries.push(c);
            }
        }
        for t in tries {
            if let Ok((rec, viols)) = run_and_judge(self.property, &t, false) {
                if let Some(v) = viols.into_iter().find(|v| v.signature() == self.signature) {
                    let pinned = pin_schedule(&t, &rec);
                    // the pinned form must fail by itself
                    if let Ok((rec2, viols2)) = run_and_judge(self.property, &pinned, false) {
                        if let Some(v2) = viols2.into_iter().find(|x| x.signature() == self.signature) {
                            return Some(Failing { scenario: pinned, violation: v2, record: rec2 });
                        }
                    }
                    let _ = v;
                }
            }
        }
        None
    }
}

/// Clauses of the predicates behind a `Diverges` query are never changed by the minimiser: that
/// class is a promise of the generator's construction and cannot be re-established by running.
fn protected(scn: &Scenario, clause: usize) -> bool {
    let f = &scn.clauses[clause].functor;
    (f == "forever" || f == "u") && scn.queries.iter().any(|q| q.class == QueryClass::Diverges)
}

fn body_variants(b: &GoalSpec) -> Vec<Option<GoalSpec>> {
    // smaller bodies: drop one element of a conjunction/disjunction, unwrap not, replace by a child
    let mut out: Vec<Option<GoalSpec>> = vec![];
    match b {
        GoalSpec::And(gs) | GoalSpec::Or(gs) => {
            let is_and = matches!(b, GoalSpec::And(_));
            if gs.len() > 1 {
                for i in 0..gs.len() {
                    let mut v = gs.clone();
                    v.remove(i);
                    out.push(Some(if is_and { GoalSpec::And(v) } else { GoalSpec::Or(v) }));
                }
            }
            for g in gs {
                out.push(Some(g.clone()));
            }
            for (i, g) in gs.iter().enumerate() {
                for var in body_variants(g) {
                    if let Some(var) = var {
                        let mut v = gs.clone();
                        v[i] = var;
                        out.push(Some(if is_and { GoalSpec::And(v) } else { GoalSpec::Or(v) }));
                    }
                }
            }
        }
        GoalSpec::Not(g) | GoalSpec::Time(g) => {
            let is_not = matches!(b, GoalSpec::Not(_));
            out.push(Some((**g).clone()));
            for var in body_variants(g) {
                if let Some(var) = var {
                    out.push(Some(if is_not { GoalSpec::Not(Box::new(var)) } else { GoalSpec::Time(Box::new(var)) }));
                }
            }
        }
        _ => {}
    }
    out.push(None); // turn the rule into a fact
    out
}

pub fn minimise(property: &str, start: Failing) -> (Failing, u64) {
    let mut m = Minimiser {
        property,
        signature: start.violation.signature(),
        original_policy: start.scenario.sched.clone(),
        original_seed: start.scenario.sched_seed,
        tests: 0,
    };
    // pin the schedule of the failing run first
    let pinned = pin_schedule(&start.scenario, &start.record);
    let mut best = match m.fails(&pinned) {
        Some(f) => f,
        None => return (start, m.tests),
    };
    best.scenario.post_check = best.violation.class == "post_check_differs";

    let mut progress = true;
    let mut rounds = 0;
    // Wall time bounds only how small the reported scenario gets, never whether a violation is
    // reported: the replay file is whatever failing scenario has been reached by then.
    let started = std::time::Instant::now();
    // (the engine leaks every proof tree, so memory bounds the number of candidate runs as well)
    let in_time = |s: &std::time::Instant| s.elapsed().as_secs() < 20 && crate::exec::resident_kib() < 1_500_000;
    while progress && rounds < 4 && m.tests < 600 && in_time(&started) {
        progress = false;
        rounds += 1;

        // 1. history operations (never the one that fails; later ones first)
        let mut i = best.scenario.history.len();
        while i > 0 {
            i -= 1;
            if i >= best.scenario.history.len() {
                continue;
            }
            if !in_time(&started) {
                break;
            }
            let mut c = best.scenario.clone();
            c.history.remove(i);
            if let Some(f) = m.fails(&c) {
                best = f;
                progress = true;
            }
        }

        // 2. clauses (the diverging predicate keeps its shape: its class is by construction)
        let mut i = best.scenario.clauses.len();
        while i > 0 {
            i -= 1;
            if i >= best.scenario.clauses.len() || protected(&best.scenario, i) {
                continue;
            }
            if !in_time(&started) {
                break;
            }
            let mut c = best.scenario.clone();
            c.clauses.remove(i);
            if let Some(f) = m.fails(&c) {
                best = f;
                progress = true;
            }
        }

        // 3. clause bodies
        let mut i = 0;
        while i < best.scenario.clauses.len() {
            let mut changed = true;
            let mut guard = 0;
            while changed && guard < 20 {
                changed = false;
                guard += 1;
                if protected(&best.scenario, i) {
                    break;
                }
                let body = match &best.scenario.clauses[i].body {
                    Some(b) => b.clone(),
                    None => break,
                };
                for var in body_variants(&body) {
                    if !in_time(&started) {
                        break;
                    }
                    let mut c = best.scenario.clone();
                    c.clauses[i].body = var;
                    if c.size() >= best.scenario.size() {
                        continue;
                    }
                    if let Some(f) = m.fails(&c) {
                        best = f;
                        progress = true;
                        changed = true;
                        break;
                    }
                }
            }
            i += 1;
        }

        // 4. unused queries
        let mut qi = best.scenario.queries.len();
        while qi > 0 {
            qi -= 1;
            let used = best.scenario.history.iter().any(|op| matches!(op, Op::New { q, .. } if *q == qi));
            if used || best.scenario.queries.len() <= 1 {
                continue;
            }
            let mut c = best.scenario.clone();
            c.queries.remove(qi);
            for op in c.history.iter_mut() {
                if let Op::New { q, .. } = op {
                    if *q > qi {
                        *q -= 1;
                    }
                }
            }
            if let Some(f) = m.fails(&c) {
                best = f;
                progress = true;
            }
        }

        // 5. time model
        if !best.scenario.time.stalls.is_empty() {
            for i in (0..best.scenario.time.stalls.len()).rev() {
                let mut c = best.scenario.clone();
                c.time.stalls.remove(i);
                if let Some(f) = m.fails(&c) {
                    best = f;
                    progress = true;
                }
            }
        }
        for i in 0..best.scenario.history.len() {
            if let Op::Idle { ms } = best.scenario.history[i] {
                for smaller in [0u64, 1, 1000, 1001] {
                    if smaller < ms {
                        let mut c = best.scenario.clone();
                        c.history[i] = Op::Idle { ms: smaller };
                        if let Some(f) = m.fails(&c) {
                            best = f;
                            progress = true;
                            break;
                        }
                    }
                }
            }
        }
        for smaller in [1u64, 100, 5_000, 50_000] {
            if smaller < best.scenario.time.step_cost_us {
                let mut c = best.scenario.clone();
                c.time.step_cost_us = smaller;
                if let Some(f) = m.fails(&c) {
                    best = f;
                    progress = true;
                    break;
                }
            }
        }

        // 6. the schedule: remove deviations from the default, chunks first
        if let SchedPolicy::Scripted { deviations } = best.scenario.sched.clone() {
            let keys: Vec<u64> = deviations.keys().cloned().collect();
            let mut chunk = keys.len().max(1);
            while chunk >= 1 {
                let mut start = 0;
                loop {
                    let cur: Vec<u64> = match &best.scenario.sched {
                        SchedPolicy::Scripted { deviations } => deviations.keys().cloned().collect(),
                        _ => vec![],
                    };
                    if start >= cur.len() || !in_time(&started) {
                        break;
                    }
                    let end = (start + chunk).min(cur.len());
                    let mut dev: BTreeMap<u64, usize> = match &best.scenario.sched {
                        SchedPolicy::Scripted { deviations } => deviations.clone(),
                        _ => BTreeMap::new(),
                    };
                    for k in &cur[start..end] {
                        dev.remove(k);
                    }
                    let mut c = best.scenario.clone();
                    c.sched = SchedPolicy::Scripted { deviations: dev };
                    // the schedule pass must not fall back on the generative policy
                    let saved = std::mem::replace(&mut m.original_policy, SchedPolicy::Default);
                    let r = m.fails(&c);
                    m.original_policy = saved;
                    if let Some(f) = r {
                        best = f;
                        progress = true;
                    } else {
                        start = end;
                    }
                }
                if chunk == 1 {
                    break;
                }
                chunk /= 2;
            }
        }
    }
    (best, m.tests)
}
