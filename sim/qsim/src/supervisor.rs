//! `qsim check`: starts the worker processes (process-level parallelism only —
//! the engine's globals are process-wide), merges their reports, confirms every
//! violation by replaying it twice in fresh processes, applies the committed
//! known-findings file and writes the evidence file.

use crate::{arg_u64, arg_value, ReplayFile, WorkerReport};
use serde::Deserialize;
use std::collections::{BTreeMap, BTreeSet};
use std::process::{Command, Stdio};
use std::time::Instant;

#[derive(Deserialize, Clone, Debug)]
pub struct KnownFinding {
    pub id: String,
    pub property: String,
    /// "open" suppresses the matching violation (KNOWN-FINDING line); "fixed" suppresses nothing
    pub status: String,
    /// violation class that must match
    #[serde(default)]
    pub class: String,
    /// every string must occur in the violation's op / expected / observed / detail / program text
    #[serde(default)]
    pub contains: Vec<String>,
    #[serde(default)]
    pub what: String,
}

#[derive(Deserialize, Clone, Debug, Default)]
pub struct KnownFile {
    #[serde(default)]
    pub findings: Vec<KnownFinding>,
}

fn matches_known(k: &KnownFinding, rf: &ReplayFile) -> bool {
    if k.property != rf.property || k.status != "open" {
        return false;
    }
    if !k.class.is_empty() && k.class != rf.violation.class {
        return false;
    }
    let hay = format!(
        "{} | {} | {} | {} | {}",
        rf.violation.op,
        rf.violation.expected,
        rf.violation.observed,
        rf.violation.detail,
        rf.program_text.join(" ")
    );
    k.contains.iter().all(|c| hay.contains(c))
}

fn add_map(into: &mut BTreeMap<String, u64>, from: &BTreeMap<String, u64>) {
    for (k, v) in from {
        *into.entry(k.clone()).or_insert(0) += v;
    }
}

pub fn check(args: &[String]) -> i32 {
    let property = arg_value(args, "--property").expect("--property");
    let tier = arg_value(args, "--tier").unwrap_or_else(|| "quick".to_string());
    let seed = arg_u64(args, "--seed", 1);
    let workers = arg_u64(args, "--workers", 16).max(1);
    let default_runs = if tier == "thorough" { 20_000_000 } else { 80_000 };
    let runs = arg_u64(args, "--runs", default_runs);
    let max_seconds = arg_u64(args, "--max-seconds", if tier == "thorough" { 600 } else { 0 });
    let evidence = arg_value(args, "--evidence").expect("--evidence");
    let replay_dir = arg_value(args, "--replay-dir").expect("--replay-dir");
    let known_path = arg_value(args, "--known").unwrap_or_default();
    let started = Instant::now();
    let exe = std::env::current_exe().expect("current_exe");
    let tmp = format!("{}/.work-{}-{}", replay_dir, property, std::process::id());
    std::fs::create_dir_all(&tmp).expect("create work dir");

    let known: KnownFile = if known_path.is_empty() {
        KnownFile::default()
    } else {
        match std::fs::read_to_string(&known_path) {
            Ok(t) => match serde_json::from_str(&t) {
                Ok(k) => k,
                Err(e) => {
                    eprintln!("harness error: cannot parse {}: {}", known_path, e);
                    return 2;
                }
            },
            Err(_) => KnownFile::default(),
        }
    };

    println!("QSIM check property={} tier={} seed={} runs<={} workers={} max_seconds={}", property, tier, seed, runs, workers, max_seconds);
    // The index range is cut into chunks; at most `workers` worker processes run at a time and
    // each serves one chunk and exits (the engine leaks its proof trees — Rc cycles between a
    // node and its parent — so a worker's memory grows with the number of runs it has served).
    let chunk = arg_u64(args, "--chunk", 1000).max(1);
    let mut next_first = 0u64;
    let mut chunk_no = 0u64;
    let mut running: Vec<(u64, String, std::process::Child)> = vec![];
    let mut total = WorkerReport::default();
    let mut harness_errors: Vec<String> = vec![];
    let mut all_violations: Vec<ReplayFile> = vec![];
    loop {
        // once several violations are in hand the verdict is known: no new chunks
        let out_of_time = (max_seconds > 0 && started.elapsed().as_secs() >= max_seconds) || all_violations.len() >= 6;
        while !out_of_time && (running.len() as u64) < workers && next_first < runs {
            let n = chunk.min(runs - next_first);
            let out = format!("{}/chunk-{}.json", tmp, chunk_no);
            let remaining = if max_seconds > 0 { max_seconds.saturating_sub(started.elapsed().as_secs()).max(1) } else { 0 };
            let child = Command::new(&exe)
                .args([
                    "worker",
                    "--property",
                    &property,
                    "--seed",
                    &seed.to_string(),
                    "--first",
                    &next_first.to_string(),
                    "--runs",
                    &n.to_string(),
                    "--max-seconds",
                    &remaining.to_string(),
                    "--out",
                    &out,
                ])
                .stdin(Stdio::null())
                .stdout(Stdio::null())
                .stderr(Stdio::piped())
                .spawn()
                .expect("spawn worker");
            running.push((chunk_no, out, child));
            next_first += n;
            chunk_no += 1;
        }
        if running.is_empty() {
            break;
        }
        // reap whichever has finished
        let mut i = 0;
        let mut reaped = false;
        while i < running.len() {
            match running[i].2.try_wait() {
                Ok(Some(_)) => {
                    let (w, out, child) = running.remove(i);
                    reaped = true;
                    let output = child.wait_with_output().expect("wait worker");
                    if !output.status.success() {
                        let err = String::from_utf8_lossy(&output.stderr);
                        let tail: String = err.lines().rev().take(6).collect::<Vec<_>>().into_iter().rev().collect::<Vec<_>>().join("\n");
                        harness_errors.push(format!("worker for chunk {} ended with {:?}:\n{}", w, output.status, tail));
                        continue;
                    }
                    let rep: WorkerReport = match std::fs::read_to_string(&out).ok().and_then(|t| serde_json::from_str(&t).ok()) {
                        Some(r) => r,
                        None => {
                            harness_errors.push(format!("worker for chunk {} wrote no report", w));
                            continue;
                        }
                    };
                    let _ = std::fs::remove_file(&out);
                    total.runs += rep.runs;
                    total.discarded += rep.discarded;
                    add_map(&mut total.discard_reasons, &rep.discard_reasons);
                    harness_errors.extend(rep.harness_errors.iter().cloned());
                    total.fault_free_runs += rep.fault_free_runs;
                    add_map(&mut total.faults, &rep.faults);
                    add_map(&mut total.faults_in_fault_free, &rep.faults_in_fault_free);
                    add_map(&mut total.counters, &rep.counters);
                    add_map(&mut total.policy_runs, &rep.policy_runs);
                    add_map(&mut total.step_cost_runs, &rep.step_cost_runs);
                    total.virtual_us += rep.virtual_us;
                    total.steps += rep.steps;
                    total.choice_points += rep.choice_points;
                    total.sched_points += rep.sched_points;
                    total.timers_started += rep.timers_started;
                    total.nontrivial_runs += rep.nontrivial_runs;
                    total.distinct_runs.extend(rep.distinct_runs.iter());
                    total.distinct_scenarios.extend(rep.distinct_scenarios.iter());
                    total.distinct_interleavings.extend(rep.distinct_interleavings.iter());
                    total.violations_total += rep.violations_total;
                    total.minimise_ms += rep.minimise_ms;
                    total.slowest.extend(rep.slowest.iter().cloned());
                    total.slowest.sort_by(|a, b| b.cmp(a));
                    total.slowest.truncate(8);
                    if total.samples.len() < 3 {
                        total.samples.extend(rep.samples.into_iter().take(1));
                    }
                    all_violations.extend(rep.violations.into_iter());
                }
                _ => i += 1,
            }
        }
        if !reaped {
            std::thread::sleep(std::time::Duration::from_millis(10));
        }
    }
    let _ = std::fs::remove_dir_all(&tmp);

    // ---- violations: one replay file per distinct signature, confirmed twice in fresh processes ----
    all_violations.sort_by_key(|r| (r.minimised_size, r.run_index));
    let mut seen: BTreeSet<String> = BTreeSet::new();
    let mut reported = 0u64;
    let mut known_hits: BTreeMap<String, u64> = BTreeMap::new();
    let mut exit = 0;
    for rf in &all_violations {
        let sig = format!("{}|{}", rf.violation.signature(), rf.violation.expected.len().min(1));
        if let Some(k) = known.findings.iter().find(|k| matches_known(k, rf)) {
            *known_hits.entry(k.id.clone()).or_insert(0) += 1;
            continue;
        }
        if !seen.insert(sig) || reported >= 5 {
            continue;
        }
        let path = format!("{}/{}-seed{}-run{}.json", replay_dir, rf.property, rf.seed, rf.run_index);
        std::fs::write(&path, serde_json::to_string_pretty(rf).unwrap()).expect("write replay file");
        let mut ok = true;
        for _ in 0..2 {
            let st = Command::new(&exe).args(["replay", &path, "--quiet"]).stdin(Stdio::null()).stdout(Stdio::null()).stderr(Stdio::null()).status();
            if st.map(|s| s.code()).ok().flatten() != Some(1) {
                ok = false;
            }
        }
        let mut rf_chain: Option<ReplayFile> = None;
        if !ok {
            // Not reproducible from the scenario alone: does it need the runs before it in the same
            // process (state kept across runs that start_query() does not reset)? Try histories of
            // growing length, back to the start of the worker's chunk.
            let mut tried = BTreeSet::new();
            for back in [1u64, 3, 7, 15, 63, 255, 1023] {
                let cf = rf.run_index.saturating_sub(back).max(rf.chunk_first);
                if !tried.insert(cf) || rf.original_violation.is_none() {
                    continue;
                }
                let mut c = rf.clone();
                c.chain_first = Some(cf);
                std::fs::write(&path, serde_json::to_string_pretty(&c).unwrap()).expect("write replay file");
                let mut both = true;
                for _ in 0..2 {
                    let st = Command::new(&exe).args(["replay", &path, "--quiet"]).stdin(Stdio::null()).stdout(Stdio::null()).stderr(Stdio::null()).status();
                    if st.map(|s| s.code()).ok().flatten() != Some(1) {
                        both = false;
                        break;
                    }
                }
                if both {
                    rf_chain = Some(c);
                    break;
                }
            }
            if rf_chain.is_none() {
                harness_errors.push(format!("violation of run {} does not replay exactly from {}", rf.run_index, path));
                continue;
            }
        }
        let chain_note = rf_chain.as_ref().and_then(|c| c.chain_first).map(|cf| format!(" [needs the runs {}..{} before it in the same process]", cf, rf.run_index)).unwrap_or_default();
        let rf = rf_chain.as_ref().unwrap_or(rf);
        reported += 1;
        exit = 1;
        println!(
            "violation: {} {} at operation {} {} — expected {} — observed {} — {}{}",
            rf.property, rf.violation.class, rf.violation.op_index, rf.violation.op, rf.violation.expected, rf.violation.observed, rf.violation.detail, chain_note
        );
        println!("  program: {}", rf.program_text.join("  "));
        println!("  history: {}", rf.history_text.join(", "));
        println!("  time model: step {} us, stalls {:?}; schedule deviations: {:?}", rf.scenario.time.step_cost_us, rf.scenario.time.stalls, rf.schedule_deviations);
        println!("VIOLATION property={} replay={}", rf.property, path);
    }
    for k in &known.findings {
        if k.property == property && k.status == "open" {
            if known_hits.contains_key(&k.id) {
                println!("KNOWN-FINDING: property={} {} ({}; re-observed {} times in this run)", k.property, k.id, k.what, known_hits[&k.id]);
            } else {
                println!("KNOWN-FINDING: property={} {} ({}; not re-observed in this run)", k.property, k.id, k.what);
            }
        }
    }

    // ---- self-test of the batch: a probe stuck at zero means the workload does not reach what it claims ----
    let f = |k: &str| *total.faults.get(k).unwrap_or(&0);
    let c = |k: &str| *total.counters.get(k).unwrap_or(&0);
    let mut stuck: Vec<&str> = vec![];
    if total.runs >= 20_000 {
        let need: Vec<(&str, u64)> = match property.as_str() {
            "C05" => vec![("reask_after_exhaustion", c("reask_after_exhaustion")), ("exhaustions_observed", c("exhaustions_observed"))],
            "C22" => vec![("judged_operations", c("judged_operations")), ("timeouts_after_limit", c("timeouts_after_limit")), ("abandoned_query", c("abandoned_query")), ("reask_after_exhaustion", c("reask_after_exhaustion")), ("post_checks", c("post_checks"))],
            _ => vec![("timer_fired_in_search", f("timer_fired_in_search")), ("cancel_won", f("cancel_won")), ("timeouts_after_limit", c("timeouts_after_limit")), ("solver_stall", f("solver_stall")), ("timer_thread_held_back", f("timer_thread_held_back")), ("cancel_lost_before_wait", f("cancel_lost_before_wait")), ("cancel_lost_thunk_in_flight", f("cancel_lost_thunk_in_flight")), ("stale_timer_fired", f("stale_timer_fired"))],
        };
        for (name, n) in need {
            if n == 0 {
                stuck.push(name);
            }
        }
    }
    if !stuck.is_empty() {
        harness_errors.push(format!("probe counters stuck at zero: {:?}", stuck));
    }
    if total.runs > 0 && total.discarded * 4 > total.runs {
        harness_errors.push(format!("{} of {} scenarios discarded: {:?}", total.discarded, total.runs, total.discard_reasons));
    }
    if total.runs == 0 {
        harness_errors.push("no runs executed".to_string());
    }

    let wall = started.elapsed().as_secs_f64();
    let evaluated = total.runs - total.discarded;
    let ev = serde_json::json!({
        "property_id": property,
        "tier": tier,
        "seed": seed,
        "level": "exploration",
        "wall_s": wall,
        "violations": reported,
        "coverage": {
            "evaluations": evaluated,
            "distinct_nontrivial": total.distinct_runs.len(),
            "rule": format!("one evaluation = one simulated session (generated program, queries, history of API calls, time model, schedule policy) drawn from stream split(VERIF_SEED, {}, run index), executed on real suiron code and the real thread_timer source under the seeded scheduler and the virtual clock, then judged. Non-trivial: {}. Distinct: different hash of (scenario, scheduling decisions, event trace).", property, match property.as_str() {
                "C05" => "a query was re-asked at least once after it had reported the end",
                "C22" => "at least one judged operation on a query that was built after another query had run (or a post-check ran)",
                _ => "at least one judged solve/solve_all with a timer thread started",
            }),
            "samples": total.samples,
            "simulated_runs": total.runs,
            "scenarios_discarded_unjudgeable": total.discarded,
            "discard_reasons": total.discard_reasons,
            "runs_per_hour": if wall > 0.0 { (total.runs as f64 / wall * 3600.0) as u64 } else { 0 },
            "seeds": 1,
            "simulated_time_s": total.virtual_us as f64 / 1e6,
            "solver_steps": total.steps,
            "scheduling_points": total.sched_points,
            "choice_points": total.choice_points,
            "timer_threads_started": total.timers_started,
            "distinct_scenarios": total.distinct_scenarios.len(),
            "distinct_interleavings": total.distinct_interleavings.len(),
            "interleaving_measure": "distinct hashes of (choice point, runnable set, chosen task)* combined with the event trace (probe site, task, virtual time)*, over runs with at least one choice point",
            "faults_injected": total.faults,
            "faults_observed_in_fault_free_runs": total.faults_in_fault_free,
            "fault_free_runs": total.fault_free_runs,
            "history_events": total.counters,
            "schedule_policies": total.policy_runs,
            "step_costs": total.step_cost_runs,
            "violations_before_dedup": total.violations_total,
            "known_findings_reobserved": known_hits,
            "components": {
                "real": ["suiron (solver, query constructors, solve/solve_all, time_out.rs incl. both globals) built from /repo's working tree with --cfg suiron_verif", "thread_timer 0.3.0 source (vendored; imports point at shuttle, the timed wait at simtime)", "process stdout (fd 1 into a memfd)"],
                "simulated": ["std::thread, std::sync::{Mutex,Condvar,mpsc} -> shuttle 0.9.3 models", "wall clock -> virtual clock (simtime)", "OS scheduler -> seeded scheduler (qsim/src/sched.rs)"],
            },
            "harness_errors": harness_errors,
        },
        "assumptions": [
            "threads are sequentially consistent (shuttle); weak-memory effects and the data race on the flag itself are C24's subject",
            "a timer fires at its deadline or later, never earlier (std Condvar::wait_timeout_while contract)",
            "the reference for answers is the engine's own pristine-state run of the same query (not a second Prolog): pure-logic defects are out of scope by design",
            "program shapes are those of the generator (DESIGN.md 3.2); a clean batch is evidence, not proof",
        ],
    });
    if let Some(dir) = std::path::Path::new(&evidence).parent() {
        let _ = std::fs::create_dir_all(dir);
    }
    std::fs::write(&evidence, serde_json::to_string_pretty(&ev).unwrap()).expect("write evidence");
    println!(
        "runs={} discarded={} nontrivial={} distinct={} interleavings={} virtual_s={:.0} wall_s={:.1} violations={}",
        total.runs,
        total.discarded,
        total.nontrivial_runs,
        total.distinct_runs.len(),
        total.distinct_interleavings.len(),
        total.virtual_us as f64 / 1e6,
        wall,
        reported
    );
    if !total.slowest.is_empty() || total.minimise_ms > 0 {
        println!("slowest runs (ms, index): {:?}; minimiser time {} ms", total.slowest, total.minimise_ms);
    }
    println!("faults: {:?}", total.faults);
    println!("history: {:?}", total.counters);
    if !harness_errors.is_empty() {
        for e in harness_errors.iter().take(10) {
            println!("HARNESS-ERROR: {}", e);
        }
        if exit == 0 {
            return 2;
        }
    }
    exit
}
