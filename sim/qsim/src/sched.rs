//! The seeded scheduler of QSIM. It implements shuttle's `Scheduler` trait:
//! shuttle asks it, at every synchronisation operation (and at every probe of
//! hook H1), which runnable task runs next.
//!
//! Choice points are the scheduling points with at least two runnable tasks.
//! The default choice is "a runnable timer thread before the solver thread,
//! lowest task id first". Every policy is recorded as its deviations from the
//! default, keyed by choice-point number; a deviation map replays and can be
//! minimised entry by entry.

use shuttle::scheduler::{Task, TaskId};
use simcore::rng::Rng;
use simcore::scenario::SchedPolicy;
use std::collections::BTreeMap;

#[derive(Debug, Default, Clone)]
pub struct SchedLog {
    /// number of choice points met
    pub choice_points: u64,
    /// number of scheduling points (next_task calls)
    pub sched_points: u64,
    /// choice point -> task chosen, where it differs from the default
    pub deviations: BTreeMap<u64, usize>,
    /// hash over (choice point, runnable set, chosen task)
    pub hash: u64,
    /// scripted deviations that named a task that was not runnable
    pub script_misses: u64,
    /// tasks put on hold by the Hold policy
    pub holds: u64,
    /// highest number of simultaneously runnable tasks
    pub max_runnable: usize,
}

pub struct SchedState {
    pub policy: SchedPolicy,
    pub rng: Rng,
    pub log: SchedLog,
    held: BTreeMap<usize, u64>,
}

impl SchedState {
    pub fn new(policy: SchedPolicy, seed: u64) -> SchedState {
        SchedState { policy, rng: Rng::new(seed), log: SchedLog { hash: 0xcbf2_9ce4_8422_2325, ..Default::default() }, held: BTreeMap::new() }
    }
}

/// The non-preemptive default: runnable timer threads (task id > 0) first, lowest id first.
pub fn default_choice(ids: &[usize]) -> usize {
    let mut best: Option<usize> = None;
    for &i in ids {
        if i != 0 && best.map(|b| i < b).unwrap_or(true) {
            best = Some(i);
        }
    }
    best.unwrap_or(0)
}

pub fn next_task(st: &mut SchedState, runnable: &[&Task], _current: Option<TaskId>, _is_yielding: bool) -> Option<TaskId> {
        st.log.sched_points += 1;
        let mut ids: Vec<usize> = runnable.iter().map(|t| usize::from(t.id())).collect();
        ids.sort_unstable();
        if ids.len() == 1 {
            return Some(TaskId::from(ids[0]));
        }
        let cp = st.log.choice_points;
        st.log.choice_points += 1;
        if ids.len() > st.log.max_runnable {
            st.log.max_runnable = ids.len();
        }
        let default = default_choice(&ids);
        let policy = std::mem::replace(&mut st.policy, SchedPolicy::Default);
        let choice = match &policy {
            SchedPolicy::Default => default,
            SchedPolicy::Uniform => ids[st.rng.usize_below(ids.len())],
            SchedPolicy::Hold { num, den, lens } => {
                let (num, den) = (*num, *den);
                // age the holds
                let keys: Vec<usize> = st.held.keys().cloned().collect();
                for k in keys {
                    let v = st.held.get_mut(&k).unwrap();
                    if *v <= 1 {
                        st.held.remove(&k);
                    } else {
                        *v -= 1;
                    }
                }
                if default != 0 && !st.held.contains_key(&default) && st.rng.chance(num, den) {
                    let n = *st.rng.pick(lens);
                    st.held.insert(default, n);
                    st.log.holds += 1;
                }
                let free: Vec<usize> = ids.iter().cloned().filter(|i| !st.held.contains_key(i)).collect();
                if free.is_empty() {
                    default
                } else {
                    default_choice(&free)
                }
            }
            SchedPolicy::Scripted { deviations } => match deviations.get(&cp) {
                Some(t) if ids.contains(t) => *t,
                Some(_) => {
                    st.log.script_misses += 1;
                    default
                }
                None => default,
            },
        };
        st.policy = policy;
        if choice != default {
            st.log.deviations.insert(cp, choice);
        }
        let mut h = st.log.hash;
        mix(&mut h, cp);
        for i in &ids {
            mix(&mut h, 0x100 + *i as u64);
        }
        mix(&mut h, 0x10000 + choice as u64);
        st.log.hash = h;
        Some(TaskId::from(choice))
    }


fn mix(h: &mut u64, v: u64) {
    *h ^= v;
    *h = h.wrapping_mul(0x0000_0100_0000_01b3);
}
