//! Executes one scenario: real suiron code (with the H1 probes), the real
//! thread_timer source on shuttle primitives, the virtual clock, the seeded
//! scheduler. Produces a record of everything observable; judging it is the
//! oracle's job (oracle.rs).

use crate::capture::Capture;
use crate::sched::{SchedLog, SchedState};
use serde::{Deserialize, Serialize};
use simcore::ast::*;
use simcore::scenario::*;
use std::cell::RefCell;
use std::collections::BTreeMap;
use std::panic::{catch_unwind, AssertUnwindSafe};
use std::rc::Rc;
use std::sync::{Arc, Mutex};
use suiron::time_out::verif_probe as vp;
use suiron::*;

pub const TIMEOUT_MSG: &str = "Query timed out after 1000 milliseconds.";
pub const NO_MORE: &str = "No more.";
pub const LIMIT_US: u64 = 1_000_000;

/// Pristine-state behaviour of one query spec (the reference for C22/C23/C05).
#[derive(Serialize, Deserialize, Clone, Debug, PartialEq, Eq)]
pub struct Baseline {
    pub answers: Vec<String>,
    /// the same answers with a repeated query variable listed once (an equally faithful rendering
    /// that solve/solve_all may use)
    #[serde(default)]
    pub answers_alt: Vec<String>,
    /// output printed while searching for answer i
    pub outs: Vec<String>,
    /// output printed by the search that ended with None (present iff `complete`)
    pub final_out: Option<String>,
    /// the answer sequence above is the whole sequence
    pub complete: bool,
    pub steps: u64,
}

#[derive(Serialize, Deserialize, Clone, Debug, PartialEq, Eq)]
pub enum OpResult {
    Built,
    /// the knowledge base has grown; it is now version `version` (index into RunRecord::versions)
    Asserted { version: usize },
    /// next_solution: Some(formatted answer) / None
    Next(Option<String>),
    Solve(String),
    SolveAll(Vec<String>),
    Idle,
    /// stop_query() called (after == 0) or armed (after > 0)
    Stopped,
    Dropped,
    Skipped,
    /// the engine panicked (message)
    Panic(String),
    /// the search did not stop within the step bound after the stop flag was set
    NoHalt { steps_since_flag: u64, bound: u64 },
    /// the budget of goal attempts (or of work) of the run is exhausted and the call has not
    /// returned: inconclusive, except on a query that can only end by its time-out (oracle)
    Budget,
    /// a backstop outside the simulated world ended the call (stack depth, wall time, memory):
    /// always inconclusive
    Backstop,
}

#[derive(Serialize, Deserialize, Clone, Debug, PartialEq, Eq)]
pub struct OpRecord {
    pub index: usize,
    pub op: Op,
    pub result: OpResult,
    pub output: String,
    pub t_call_us: u64,
    pub t_ret_us: u64,
    /// stop flag as read (without a probe) right after the call returned
    pub flag_on_return: bool,
    /// stop flag right before the call
    pub flag_before: bool,
    /// timers whose thunk ran during this operation (call ids)
    pub thunks: Vec<u64>,
    /// call id of the timer this operation started (solve / solve_all), 0 if none
    pub call_id: u64,
    pub steps: u64,
    /// stop_query() was called during this operation (by the user thread in a Stop op, or by
    /// "another thread of the application" at an armed goal attempt of a search)
    #[serde(default)]
    pub user_stop: bool,
}

#[derive(Serialize, Deserialize, Clone, Debug, PartialEq, Eq)]
pub struct TraceEvent {
    pub seq: u64,
    pub task: usize,
    pub what: String,
    pub at_us: u64,
}

#[derive(Serialize, Deserialize, Clone, Debug, Default)]
pub struct RunRecord {
    /// baseline of every query on the initial knowledge base (= baseline_v[0])
    pub baseline: Vec<Baseline>,
    /// knowledge-base versions met in the history: the list of Assert-ed extra clauses, in order
    #[serde(default)]
    pub versions: Vec<Vec<usize>>,
    /// baseline_v[v][q]: pristine behaviour of query q on version v of the knowledge base, computed
    /// on a fresh OS thread (clean thread-locals) with the globals reset, on a knowledge base of its own
    #[serde(default)]
    pub baseline_v: Vec<Vec<Baseline>>,
    pub ops: Vec<OpRecord>,
    /// post-check: every query built and run once more after the drain, without resetting globals
    pub post: Option<Vec<Baseline>>,
    pub faults: BTreeMap<String, u64>,
    pub trace_hash: u64,
    pub trace: Vec<TraceEvent>,
    pub virtual_us: u64,
    pub steps: u64,
    pub drained: bool,
    pub choice_points: u64,
    pub sched_points: u64,
    pub deviations: BTreeMap<u64, usize>,
    pub sched_hash: u64,
    pub script_misses: u64,
    pub max_runnable: usize,
    pub timers_started: u64,
    /// Some(reason): the scenario could not be judged (baseline too long / engine panic in baseline)
    pub discard: Option<String>,
    /// after the run, start_query() did not clear the stop flag
    #[serde(default)]
    pub flag_stuck_after_start_query: bool,
    /// version of the knowledge base at the end of the history
    #[serde(default)]
    pub final_version: usize,
    /// the stop flag was already set, and start_query() did not clear it, before this run began:
    /// an earlier run in this process has poisoned it (the run is not judged)
    #[serde(default)]
    pub poisoned_at_start: bool,
}

pub enum RunOutcome {
    Done(RunRecord),
    /// shuttle reported a deadlock or a panic escaped the harness
    HarnessError(String),
}

#[derive(Clone, Copy)]
pub struct ExecOpts {
    pub trace: bool,
    pub step_budget: u64,
    pub baseline_step_cap: u64,
}

impl Default for ExecOpts {
    fn default() -> Self {
        ExecOpts { trace: false, step_budget: 60_000, baseline_step_cap: 8_000 }
    }
}

// ------------------------------------------------------------------------------------------
// simulator state shared with the probe function (thread-local: one OS thread runs everything)
// ------------------------------------------------------------------------------------------

#[derive(Clone, Copy, PartialEq, Eq, Debug)]
enum Mode {
    Off,
    /// pristine-state runs: count steps only, no scheduling, no clock
    Baseline,
    Live,
}

#[derive(Clone, Copy, PartialEq, Eq, Debug)]
enum Phase {
    Searching,
    Cancelling,
    AfterCancel,
}

#[derive(Clone, Debug, Default)]
struct TimerInfo {
    registered: bool,
    deadline_us: u64,
    timed_out: bool,
    cancelled: bool,
    /// the thunk has been entered (its probe was reached)
    thunk_ran: bool,
    /// the thunk has got past its scheduling point (its write follows without another one)
    thunk_passed: bool,
}

struct AbortBaseline;
struct AbortNoHalt {
    steps_since_flag: u64,
    bound: u64,
}
struct AbortBudget;
/// the search recursed deeper than a native 8 MiB main-thread stack would allow
struct AbortDepth;
const DEPTH_LIMIT: usize = 8 << 20;

struct Sim {
    mode: Mode,
    step_cost_us: u64,
    stalls: Vec<(u64, u64)>,
    steps: u64,
    work: u64,
    baseline_steps: u64,
    baseline_work: u64,
    baseline_cap: u64,
    step_budget: u64,
    call_seq: u64,
    in_call: Option<(u64, Phase)>,
    in_op: bool,
    op_start_step: u64,
    since_flag: u64,
    steps_at_flag: u64,
    timers: Vec<TimerInfo>,
    faults: BTreeMap<String, u64>,
    thunks_in_op: Vec<u64>,
    /// Stop { after: k } is armed: stop_query() at the k-th goal attempt of the next search
    stop_armed: Option<u64>,
    /// the current operation asks for answers (next_solution, solve, solve_all)
    answer_op: bool,
    user_stop_in_op: bool,
    stack_base: usize,
    run_started: Option<std::time::Instant>,
    guard_calls: u64,
    trace_on: bool,
    live: bool,
    trace: Vec<TraceEvent>,
    trace_hash: u64,
    seq: u64,
}

impl Sim {
    fn new() -> Sim {
        Sim {
            mode: Mode::Off,
            step_cost_us: 1,
            stalls: vec![],
            steps: 0,
            work: 0,
            baseline_steps: 0,
            baseline_work: 0,
            baseline_cap: 0,
            step_budget: 0,
            call_seq: 0,
            in_call: None,
            in_op: false,
            op_start_step: 0,
            since_flag: 0,
            steps_at_flag: 0,
            timers: vec![],
            faults: BTreeMap::new(),
            thunks_in_op: vec![],
            stop_armed: None,
            answer_op: false,
            user_stop_in_op: false,
            stack_base: 0,
            run_started: None,
            guard_calls: 0,
            trace_on: false,
            live: std::env::var("QSIM_LIVE_TRACE").is_ok(),
            trace: vec![],
            trace_hash: 0xcbf2_9ce4_8422_2325,
            seq: 0,
        }
    }
    fn fault(&mut self, name: &str) {
        *self.faults.entry(name.to_string()).or_insert(0) += 1;
    }
    fn event(&mut self, task: usize, what: &str) {
        self.event_at(task, what, simtime::now_us());
    }
    fn event_at(&mut self, task: usize, what: &str, at: u64) {
        self.seq += 1;
        let mut h = self.trace_hash;
        for b in what.as_bytes() {
            h ^= *b as u64;
            h = h.wrapping_mul(0x0000_0100_0000_01b3);
        }
        h ^= (task as u64) << 8 ^ at.rotate_left(20) ^ self.seq;
        h = h.wrapping_mul(0x0000_0100_0000_01b3);
        self.trace_hash = h;
        if self.live {
            eprintln!("   #{} task{} {} @{}us", self.seq, task, what, at);
        }
        if self.trace_on && self.trace.len() < 20_000 {
            self.trace.push(TraceEvent { seq: self.seq, task, what: what.to_string(), at_us: at });
        }
    }
    /// Folds the virtual clock's sleeper events into the timer table.
    fn sync_timers(&mut self) {
        for ev in simtime::take_events() {
            let idx = ev.task.wrapping_sub(1);
            while self.timers.len() <= idx && idx < 10_000 {
                self.timers.push(TimerInfo::default());
            }
            if idx >= self.timers.len() {
                continue;
            }
            match ev.kind {
                simtime::SleepEventKind::Registered => {
                    self.timers[idx].registered = true;
                    self.timers[idx].deadline_us = ev.deadline_us;
                    self.event_at(ev.task, "timer_wait_begins", ev.at_us);
                }
                simtime::SleepEventKind::TimedOut => {
                    self.timers[idx].timed_out = true;
                    self.event_at(ev.task, "timer_wait_timed_out", ev.at_us);
                }
                simtime::SleepEventKind::Cancelled => {
                    self.timers[idx].cancelled = true;
                    self.event_at(ev.task, "timer_wait_cancelled", ev.at_us);
                }
            }
        }
    }
}

thread_local! {
    static SIM: RefCell<Sim> = RefCell::new(Sim::new());
}

// one capture per process (fd 1 is process-wide); runs are strictly sequential
static CAPTURE: Mutex<Option<Capture>> = Mutex::new(None);

fn install_capture() {
    let mut c = CAPTURE.lock().unwrap_or_else(|p| p.into_inner());
    if c.is_none() {
        *c = Some(Capture::install());
    }
}

fn take_output() -> String {
    let raw = match CAPTURE.lock().unwrap_or_else(|p| p.into_inner()).as_mut() {
        Some(cap) => String::from_utf8_lossy(&cap.take()).into_owned(),
        None => String::new(),
    };
    mask_elapsed(&raw)
}

/// time(G) prints "<n> second(s) <m> microseconds " with figures read from the real clock — the
/// one place where real time reaches an observable. The figures are masked; that the text is
/// printed (once, in search order) stays observable.
pub fn mask_elapsed(text: &str) -> String {
    let b: Vec<char> = text.chars().collect();
    let mut out = String::with_capacity(text.len());
    let mut i = 0;
    let digits = |from: usize| -> usize {
        let mut j = from;
        while j < b.len() && b[j].is_ascii_digit() {
            j += 1;
        }
        j
    };
    let lit = |from: usize, s: &str| -> Option<usize> {
        let cs: Vec<char> = s.chars().collect();
        if from + cs.len() <= b.len() && b[from..from + cs.len()] == cs[..] {
            Some(from + cs.len())
        } else {
            None
        }
    };
    while i < b.len() {
        let d1 = digits(i);
        if d1 > i {
            let after = lit(d1, " seconds ").or_else(|| lit(d1, " second "));
            if let Some(a) = after {
                let d2 = digits(a);
                if d2 > a {
                    if let Some(e) = lit(d2, " microseconds ") {
                        // Only the last digit before " seconds" is the figure (no search here takes
                        // ten real seconds); digits before it belong to whatever was printed just
                        // before (a variable id, a number) — this keeps masking independent of
                        // where the output was cut into chunks.
                        for c in &b[i..d1 - 1] {
                            out.push(*c);
                        }
                        out.push_str("<elapsed> ");
                        i = e;
                        continue;
                    }
                }
            }
            for c in &b[i..d1] {
                out.push(*c);
            }
            i = d1;
            continue;
        }
        out.push(b[i]);
        i += 1;
    }
    out
}

fn me() -> usize {
    usize::from(shuttle::current::me())
}

fn sched_point() {
    shuttle::thread::sleep(std::time::Duration::ZERO);
}

/// Hook H1 calls this immediately before every access to the stop flag and
/// around the timer cancellation.
fn probe(site: u32, arg: u64) {
    let (mode, base) = SIM.with(|s| {
        let s = s.borrow();
        (s.mode, s.stack_base)
    });
    if site == vp::QUERY_STOPPED && mode != Mode::Off && base != 0 && (mode == Mode::Baseline || usize::from(shuttle::current::me()) == 0) {
        let here = &mode as *const Mode as usize;
        if base.abs_diff(here) > DEPTH_LIMIT {
            std::panic::panic_any(AbortDepth);
        }
        // Backstop in wall time, far above anything the unchanged tree needs (its slowest run takes
        // a few seconds): a change that makes the engine call this probe much more rarely would
        // otherwise let one run go on for minutes. Such a run ends as inconclusive.
        let too_long = SIM.with(|s| {
            let mut s = s.borrow_mut();
            s.guard_calls += 1;
            let slow = s.run_started.map(|t| t.elapsed().as_secs() >= 40).unwrap_or(false);
            // and in memory (the engine never frees a proof tree): checked every 256th call
            slow || (s.guard_calls % 256 == 0 && resident_kib() > 4_000_000)
        });
        if too_long {
            std::panic::panic_any(AbortDepth);
        }
    }
    match mode {
        Mode::Off => return,
        Mode::Baseline => {
            if site == vp::QUERY_STOPPED {
                let over = SIM.with(|s| {
                    let mut s = s.borrow_mut();
                    s.baseline_steps += 1;
                    // same deterministic work measure as in live mode (see there)
                    let v = get_var_id() as u64;
                    s.baseline_work += 1 + v * v / 1000;
                    s.baseline_steps > s.baseline_cap || s.baseline_work > 10 * s.baseline_cap
                });
                if over {
                    std::panic::panic_any(AbortBaseline);
                }
            }
            return;
        }
        Mode::Live => {}
    }
    let task = me();
    match site {
        vp::START_QUERY_TIMER => {
            SIM.with(|s| {
                let mut s = s.borrow_mut();
                s.call_seq += 1;
                let id = s.call_seq;
                s.in_call = Some((id, Phase::Searching));
                while s.timers.len() < id as usize {
                    s.timers.push(TimerInfo::default());
                }
                s.since_flag = 0;
                s.event(task, &format!("start_query_timer#{} {}ms", id, arg));
            });
            sched_point();
        }
        vp::START_QUERY => {
            SIM.with(|s| s.borrow_mut().event(task, "start_query"));
            // between the reset in make_query and what the caller does next (make_base_node)
            sched_point();
        }
        vp::QUERY_STOPPED => {
            // one goal attempt (or one check in solve/solve_all) by the solver thread
            enum Act {
                Go(u64),
                NoHalt(u64, u64),
                Budget,
            }
            // the stop button, pressed by another thread of the application at this instant
            let press = SIM.with(|s| {
                let mut s = s.borrow_mut();
                match s.stop_armed {
                    Some(k) if s.in_op && s.answer_op && task == 0 && s.steps + 1 - s.op_start_step >= k => {
                        s.stop_armed = None;
                        true
                    }
                    _ => false,
                }
            });
            if press {
                stop_query();
            }
            let flag = vp::peek_flag();
            let act = SIM.with(|s| {
                let mut s = s.borrow_mut();
                s.steps += 1;
                let mut cost = s.step_cost_us;
                let step = s.steps;
                let mut stalled = false;
                for (at, us) in s.stalls.iter() {
                    if *at == step {
                        cost += *us;
                        stalled = true;
                    }
                }
                if stalled && s.in_op {
                    s.fault("solver_stall");
                    s.event(task, "solver_stall");
                }
                if flag {
                    if s.since_flag == 0 {
                        // goal attempts of this operation when the flag was first seen set
                        s.steps_at_flag = s.steps - s.op_start_step;
                    }
                    s.since_flag += 1;
                } else {
                    s.since_flag = 0;
                }
                let bound = 20 * s.steps_at_flag + 2000;
                if s.in_op && flag && s.since_flag > bound {
                    return Act::NoHalt(s.since_flag, bound);
                }
                // deterministic work budget: the engine copies the substitution set (as long as the
                // highest variable id) at every unification, so deep recursions get quadratically slow
                let v = get_var_id() as u64;
                s.work += 1 + v * v / 1000;
                if s.steps > s.step_budget || s.work > 10 * s.step_budget {
                    return Act::Budget;
                }
                Act::Go(cost)
            });
            match act {
                Act::NoHalt(a, b) => std::panic::panic_any(AbortNoHalt { steps_since_flag: a, bound: b }),
                Act::Budget => std::panic::panic_any(AbortBudget),
                Act::Go(cost) => {
                    simtime::advance_us(cost);
                    SIM.with(|s| s.borrow_mut().sync_timers());
                    sched_point();
                    SIM.with(|s| s.borrow_mut().sync_timers());
                }
            }
        }
        vp::STOP_QUERY if arg == 0 => {
            // stop_query() itself (a thunk passes its generation, which is never 0)
            SIM.with(|s| {
                let mut s = s.borrow_mut();
                let kind = if s.answer_op { "user_stop_during_search" } else { "user_stop_between_operations" };
                s.fault(kind);
                s.user_stop_in_op = true;
                s.event(task, "stop_query");
            });
            sched_point();
        }
        vp::STOP_QUERY => {
            // a timer thunk is about to set the flag; `task` is the timer thread
            SIM.with(|s| {
                let mut s = s.borrow_mut();
                s.sync_timers();
                let id = task as u64; // timer threads are spawned in call order: task k <-> call k
                let idx = task.wrapping_sub(1);
                let mut late = false;
                if idx < s.timers.len() {
                    s.timers[idx].thunk_ran = true;
                    late = simtime::now_us() >= s.timers[idx].deadline_us + 1000;
                }
                if late {
                    s.fault("timer_starved");
                }
                match s.in_call {
                    Some((cid, Phase::Searching)) if cid == id => s.fault("timer_fired_in_search"),
                    Some((cid, _)) if cid == id => s.fault("timer_fired_after_search"),
                    _ => {
                        s.fault("stale_timer_fired");
                        if s.in_op {
                            s.fault("stale_timer_fired_during_operation");
                        }
                    }
                }
                s.thunks_in_op.push(id);
                s.event(task, &format!("thunk#{}", id));
            });
            sched_point();
            SIM.with(|s| {
                let mut s = s.borrow_mut();
                let idx = task.wrapping_sub(1);
                if idx < s.timers.len() {
                    s.timers[idx].thunk_passed = true;
                }
            });
        }
        vp::CANCEL_TIMER => {
            SIM.with(|s| {
                let mut s = s.borrow_mut();
                if let Some((cid, _)) = s.in_call {
                    s.in_call = Some((cid, Phase::Cancelling));
                }
                s.event(task, "cancel_timer");
            });
            sched_point();
        }
        vp::CANCEL_RESULT => {
            SIM.with(|s| {
                let mut s = s.borrow_mut();
                s.sync_timers();
                let cid = s.in_call.map(|c| c.0).unwrap_or(0);
                let idx = (cid as usize).wrapping_sub(1);
                let t = if idx < s.timers.len() { s.timers[idx].clone() } else { TimerInfo::default() };
                if arg == 1 {
                    s.fault("cancel_won");
                    s.event(task, "cancel_ok");
                } else {
                    if t.thunk_passed {
                        s.fault("cancel_after_fire");
                    } else if t.thunk_ran || t.timed_out {
                        // the wait has timed out and the thunk is entered but has not written yet
                        s.fault("cancel_lost_thunk_in_flight");
                    } else {
                        s.fault("cancel_lost_before_wait");
                    }
                    s.event(task, "cancel_err");
                }
                if let Some((cid, _)) = s.in_call {
                    s.in_call = Some((cid, Phase::AfterCancel));
                }
            });
            // between the return of cancel() and what cancel_timer does next (the end of the
            // generation): a thunk in flight may run exactly here
            sched_point();
        }
        _ => {}
    }
}

fn panic_message(p: &Box<dyn std::any::Any + Send>) -> String {
    if let Some(s) = p.downcast_ref::<&str>() {
        s.to_string()
    } else if let Some(s) = p.downcast_ref::<String>() {
        s.clone()
    } else {
        "non-string panic payload".to_string()
    }
}

/// The harness's own rendering of an answer, independent of the engine's format_solution (which
/// solve/solve_all use, and which is therefore under test): for every argument of the query that
/// is a variable, `name = value` with the value taken from the instantiated query term, joined by
/// ", ". `dedup` lists a variable that occurs twice only at its first occurrence.
fn reference_answer(goal: &Goal, ss: &Rc<SubstitutionSet>, dedup: bool) -> String {
    let mut parts: Vec<String> = vec![];
    let mut seen: Vec<String> = vec![];
    if let Goal::ComplexGoal(Unifiable::SComplex(q)) = goal {
        for i in 1..q.len() {
            if let Unifiable::LogicVar { name, .. } = &q[i] {
                if dedup && seen.contains(name) {
                    continue;
                }
                seen.push(name.clone());
                parts.push(format!("{} = {}", name, instantiate(&q[i], ss, 0)));
            }
        }
    }
    parts.join(", ")
}

/// The harness's own instantiation of a term under a substitution set (the engine's
/// replace_variables and get_ground_term are under test): a bound variable is replaced by the
/// instantiation of what it is bound to, to any depth; compound terms and lists are rebuilt
/// around their instantiated parts; everything else is copied.
fn instantiate(t: &Unifiable, ss: &SubstitutionSet, depth: usize) -> Unifiable {
    if depth > 4000 {
        return t.clone(); // a cyclic binding: not this function's business
    }
    match t {
        Unifiable::LogicVar { id, .. } => match ss.get(*id) {
            Some(Some(bound)) => instantiate(bound, ss, depth + 1),
            _ => t.clone(),
        },
        Unifiable::SComplex(terms) => Unifiable::SComplex(terms.iter().map(|x| instantiate(x, ss, depth + 1)).collect()),
        Unifiable::SLinkedList { term, next, count, tail_var } => Unifiable::SLinkedList {
            term: Box::new(instantiate(term, ss, depth + 1)),
            next: Box::new(instantiate(next, ss, depth + 1)),
            count: *count,
            tail_var: *tail_var,
        },
        other => other.clone(),
    }
}

fn format_answer(goal: &Goal, ss: &Rc<SubstitutionSet>) -> String {
    reference_answer(goal, ss, false)
}

/// Builds and steps one query with next_solution only, probes in counting mode.
/// `reset`: call start_query() first (pristine state) — true for the baseline,
/// false for the post-check (which is itself a judged observation).
fn run_plain(q: &QuerySpec, kb: &KnowledgeBase, reset: bool, cap_answers: usize) -> Result<Baseline, String> {
    if q.class == QueryClass::Diverges {
        return Ok(Baseline { answers: vec![], answers_alt: vec![], outs: vec![], final_out: None, complete: false, steps: 0 });
    }
    SIM.with(|s| {
        let mut s = s.borrow_mut();
        s.baseline_steps = 0;
        s.baseline_work = 0;
    });
    let r = catch_unwind(AssertUnwindSafe(|| {
        if reset {
            start_query();
        }
        let goal = q.to_suiron();
        let sn = make_base_node(Rc::new(goal.clone()), kb);
        let mut b = Baseline { answers: vec![], answers_alt: vec![], outs: vec![], final_out: None, complete: false, steps: 0 };
        let cap = if q.class == QueryClass::Unbounded { cap_answers.min(16) } else { cap_answers };
        let _ = take_output();
        loop {
            if b.answers.len() >= cap {
                break;
            }
            match next_solution(Rc::clone(&sn)) {
                Some(ss) => {
                    b.answers.push(format_answer(&goal, &ss));
                    b.answers_alt.push(reference_answer(&goal, &ss, true));
                    b.outs.push(take_output());
                }
                None => {
                    b.final_out = Some(take_output());
                    b.complete = true;
                    break;
                }
            }
        }
        b
    }));
    let steps = SIM.with(|s| s.borrow().baseline_steps);
    match r {
        Ok(mut b) => {
            b.steps = steps;
            if q.class == QueryClass::Finite && !b.complete {
                return Err(format!("finite query {} has more than {} answers", q, cap_answers));
            }
            Ok(b)
        }
        Err(p) => {
            let _ = take_output();
            if p.downcast_ref::<AbortBaseline>().is_some() {
                Err(format!("baseline of {} exceeds the step cap", q))
            } else if p.downcast_ref::<AbortDepth>().is_some() {
                Err(format!("baseline of {} recurses deeper than a native stack allows", q))
            } else {
                Err(format!("engine panicked in the baseline of {}: {}", q, panic_message(&p)))
            }
        }
    }
}

struct Handle<'a> {
    goal: Goal,
    sn: Rc<RefCell<SolutionNode<'a>>>,
}

fn idle(ms: u64) {
    // Let virtual time pass on the user thread; stop at every timer deadline on the way so the
    // timer threads get their chance to run at (or after) their deadline.
    let target = simtime::now_us() + ms * 1000;
    let mut guard = 0;
    loop {
        let now = simtime::now_us();
        let next = simtime::sleeper_deadlines().into_iter().map(|d| d.1).filter(|d| *d > now && *d <= target).min();
        match next {
            Some(d) if guard < 64 => {
                simtime::advance_to_us(d);
                shuttle::thread::yield_now();
                guard += 1;
            }
            _ => {
                simtime::advance_to_us(target);
                shuttle::thread::yield_now();
                break;
            }
        }
    }
    SIM.with(|s| s.borrow_mut().sync_timers());
}

/// After the history: let every timer that is still waiting reach its deadline and run.
fn drain() -> bool {
    // A timer thread that was preempted between its deadline check and its condvar wait misses
    // the notification of one clock advance (shuttle has a scheduling point there); every
    // further advance repeats it. Holds of the schedule policy are finite in choice points and
    // every iteration consumes some, so this loop ends; the cap is a backstop.
    // every timer that was started has ended its wait (timed out or cancelled): a timer thread
    // that has not even begun to wait yet (never cancelled, and held back by the schedule) is
    // not a sleeper, but it will be one
    let all_done = || {
        SIM.with(|s| {
            let mut s = s.borrow_mut();
            s.sync_timers();
            (0..s.call_seq as usize).all(|i| i < s.timers.len() && (s.timers[i].timed_out || s.timers[i].cancelled))
        })
    };
    for _ in 0..50_000 {
        if simtime::sleepers() == 0 && all_done() {
            // one more round so that a timer thread that just left its wait can run its thunk
            shuttle::thread::yield_now();
            shuttle::thread::yield_now();
            if simtime::sleepers() == 0 {
                SIM.with(|s| s.borrow_mut().sync_timers());
                return true;
            }
        }
        match simtime::next_deadline_us() {
            Some(d) => simtime::advance_to_us(d),
            None => simtime::advance_us(0),
        }
        shuttle::thread::yield_now();
    }
    SIM.with(|s| s.borrow_mut().sync_timers());
    simtime::sleepers() == 0
}

/// Marks, as first element of a version, the other program of `Op::Reload`.
pub const ALT_PROGRAM: usize = usize::MAX;

/// The version that a Reload op leads to.
pub fn version_after_reload(cur: &[usize]) -> Vec<usize> {
    if cur.first() == Some(&ALT_PROGRAM) { vec![] } else { vec![ALT_PROGRAM] }
}

/// The knowledge-base versions a history goes through: version 0 is the initial program, every
/// Assert op appends one extra clause, every Reload op switches to the other program (without the
/// extra clauses). Returns the versions in order of first appearance.
pub fn kb_versions(scn: &Scenario) -> Vec<Vec<usize>> {
    let mut versions: Vec<Vec<usize>> = vec![vec![]];
    let mut cur: Vec<usize> = vec![];
    for op in &scn.history {
        match op {
            Op::Assert { c } if *c < scn.extra_clauses.len() => cur.push(*c),
            Op::Reload => cur = version_after_reload(&cur),
            _ => continue,
        }
        if !versions.contains(&cur) {
            versions.push(cur.clone());
        }
    }
    versions
}

pub fn clauses_of_version(scn: &Scenario, version: &[usize]) -> Vec<Clause> {
    let (mut v, extras) = if version.first() == Some(&ALT_PROGRAM) { (scn.alt_clauses(), &version[1..]) } else { (scn.clauses.clone(), version) };
    for c in extras {
        v.push(scn.extra_clauses[*c].clone());
    }
    v
}

/// Pristine-state baselines, computed on a baseline thread: clean thread-locals, globals reset
/// with start_query() before every query, a knowledge base of its own per version, no timer, the
/// probes in counting mode. Nothing the simulated history does can have touched this.
///
/// The thread is replaced by a new one (fresh thread-locals) every eighth call, not every call:
/// creating threads does not scale on this machine (16 processes spawning at once take 1.5 ms per
/// spawn instead of 0.1 ms). Between replacements the thread has only ever run baselines, never a
/// history; a thread-local that a change under test poisons during a *baseline* (a sticky flag set
/// by one query's arithmetic) is therefore clean again at least every eighth run.
pub fn pristine_baselines(scn: &Scenario, opts: ExecOpts) -> Result<Vec<Vec<Baseline>>, String> {
    struct Worker {
        jobs: std::sync::mpsc::Sender<(Scenario, ExecOpts)>,
        results: std::sync::mpsc::Receiver<Result<Vec<Vec<Baseline>>, String>>,
        served: u64,
    }
    static WORKER: Mutex<Option<Worker>> = Mutex::new(None);
    let mut slot = WORKER.lock().unwrap_or_else(|p| p.into_inner());
    let stale = slot.as_ref().map(|w| w.served >= 8).unwrap_or(true);
    if stale {
        *slot = None; // closes the job channel: the old thread ends
        let (jtx, jrx) = std::sync::mpsc::channel::<(Scenario, ExecOpts)>();
        let (rtx, rrx) = std::sync::mpsc::channel();
        std::thread::Builder::new()
            .name("qsim-baseline".to_string())
            .stack_size(24 << 20)
            .spawn(move || {
                while let Ok((scn, opts)) = jrx.recv() {
                    let r = catch_unwind(AssertUnwindSafe(|| baselines_here(&scn, opts)));
                    let r = match r {
                        Ok(r) => r,
                        Err(p) => Err(format!("baseline thread panicked: {}", panic_message(&p))),
                    };
                    if rtx.send(r).is_err() {
                        break;
                    }
                }
            })
            .map_err(|e| format!("cannot spawn the baseline thread: {}", e))?;
        *slot = Some(Worker { jobs: jtx, results: rrx, served: 0 });
    }
    let w = slot.as_mut().unwrap();
    w.served += 1;
    if w.jobs.send((scn.clone(), opts)).is_err() {
        *slot = None;
        return Err("baseline thread is gone".to_string());
    }
    match w.results.recv() {
        Ok(r) => r,
        Err(_) => {
            *slot = None;
            Err("baseline thread ended without a result".to_string())
        }
    }
}

fn baselines_here(scn2: &Scenario, opts: ExecOpts) -> Result<Vec<Vec<Baseline>>, String> {
    let anchor = 0u8;
    SIM.with(|s| {
        let mut s = s.borrow_mut();
        *s = Sim::new();
        s.mode = Mode::Baseline;
        s.baseline_cap = opts.baseline_step_cap;
        s.stack_base = &anchor as *const u8 as usize;
        s.run_started = Some(std::time::Instant::now());
    });
    vp::set_probe(Some(probe));
    let _ = take_output();
    start_query();
    if vp::peek_flag() {
        vp::set_probe(None);
        return Err("process poisoned: the stop flag is set and start_query() does not clear it".to_string());
    }
    let mut out = vec![];
    for version in kb_versions(scn2) {
        let kb = build_kb(&clauses_of_version(scn2, &version));
        let mut row = vec![];
        for q in &scn2.queries {
            match run_plain(q, &kb, true, 400) {
                Ok(b) => row.push(b),
                Err(why) => {
                    vp::set_probe(None);
                    start_query();
                    SIM.with(|s| s.borrow_mut().mode = Mode::Off);
                    return Err(why);
                }
            }
        }
        out.push(row);
    }
    vp::set_probe(None);
    start_query();
    SIM.with(|s| s.borrow_mut().mode = Mode::Off);
    Ok(out)
}

fn run_body(scn: &Scenario, opts: ExecOpts, baselines: &Result<Vec<Vec<Baseline>>, String>) -> RunRecord {
    let mut rec = RunRecord::default();
    simtime::reset();
    SIM.with(|s| {
        let mut s = s.borrow_mut();
        *s = Sim::new();
        s.mode = Mode::Baseline;
        s.step_cost_us = scn.time.step_cost_us;
        s.stalls = scn.time.stalls.clone();
        s.baseline_cap = opts.baseline_step_cap;
        s.step_budget = opts.step_budget;
        s.trace_on = opts.trace;
        s.stack_base = &rec as *const RunRecord as usize;
        s.run_started = Some(std::time::Instant::now());
    });
    let _ = take_output();
    rec.versions = kb_versions(scn);
    match baselines {
        Ok(b) => {
            rec.baseline_v = b.clone();
            rec.baseline = b.first().cloned().unwrap_or_default();
        }
        Err(why) => {
            rec.poisoned_at_start = why.starts_with("process poisoned");
            rec.discard = Some(why.clone());
            return rec;
        }
    }
    vp::set_probe(Some(probe));
    start_query();

    // The knowledge base lives behind a raw pointer: query instances borrow it, and an Assert op
    // changes it in place (as add_rules(&mut kb, ..) does in a program) after every instance has
    // been dropped — which the borrow checker cannot see through the handle map.
    let kb_ptr: *mut KnowledgeBase = Box::into_raw(Box::new(build_kb(&scn.clauses)));
    let mut version: usize = 0;
    let mut asserted: Vec<usize> = vec![];

    // ---- the history, live ----
    SIM.with(|s| s.borrow_mut().mode = Mode::Live);
    let mut handles: BTreeMap<usize, Handle> = BTreeMap::new();
    let mut handle_version: BTreeMap<usize, usize> = BTreeMap::new();
    // Only the most recently built query may be stepped: make_query resets the variable counter,
    // so stepping an older live search next to a newer one is an unsupported use that can recurse
    // without bound inside unify (and would take the worker process down with it).
    let mut newest: Option<usize> = None;
    for (index, op) in scn.history.iter().enumerate() {
        let op = &match op {
            Op::Next { h } | Op::Solve { h } | Op::SolveAll { h } if newest != Some(*h) => Op::Drop { h: usize::MAX },
            other => other.clone(),
        };
        let t_call = simtime::now_us();
        let flag_before = vp::peek_flag();
        let steps_before = SIM.with(|s| {
            let mut s = s.borrow_mut();
            s.in_op = true;
            s.answer_op = matches!(op, Op::Next { .. } | Op::Solve { .. } | Op::SolveAll { .. });
            s.user_stop_in_op = false;
            s.op_start_step = s.steps;
            s.since_flag = 0;
            s.thunks_in_op.clear();
            s.in_call = None;
            s.event(0, &format!("op{} {:?}", index, op));
            s.steps
        });
        let calls_before = SIM.with(|s| s.borrow().call_seq);
        let result: OpResult = match op {
            Op::New { h, q, gap_ms } => {
                if *q >= scn.queries.len() {
                    OpResult::Skipped
                } else {
                    let spec = &scn.queries[*q];
                    // SAFETY: the box is alive until the end of run_body and is only changed (Assert)
                    // while no query instance exists
                    let kbr: &KnowledgeBase = unsafe { &*kb_ptr };
                    let gap = *gap_ms;
                    match catch_unwind(AssertUnwindSafe(|| {
                        let goal = spec.to_suiron();
                        if gap > 0 {
                            idle(gap);
                        }
                        let sn = make_base_node(Rc::new(goal.clone()), kbr);
                        Handle { goal, sn }
                    })) {
                        Ok(hd) => {
                            handles.insert(*h, hd);
                            handle_version.insert(*h, version);
                            newest = Some(*h);
                            OpResult::Built
                        }
                        Err(p) => OpResult::Panic(panic_message(&p)),
                    }
                }
            }
            Op::Assert { c } => {
                if *c >= scn.extra_clauses.len() {
                    OpResult::Skipped
                } else {
                    handles.clear();
                    newest = None;
                    let rule = scn.extra_clauses[*c].to_suiron();
                    // SAFETY: no query instance is alive (handles cleared just above)
                    match catch_unwind(AssertUnwindSafe(|| unsafe { add_rules(&mut *kb_ptr, vec![rule]) })) {
                        Ok(()) => {
                            asserted.push(*c);
                            version = rec.versions.iter().position(|v| *v == asserted).unwrap_or(0);
                            OpResult::Asserted { version }
                        }
                        Err(p) => OpResult::Panic(panic_message(&p)),
                    }
                }
            }
            Op::Reload => {
                handles.clear();
                newest = None;
                let next = version_after_reload(&asserted);
                let clauses = clauses_of_version(scn, &next);
                // SAFETY: no query instance is alive (handles cleared just above); the assignment
                // drops the old table and moves the new one to the same address
                match catch_unwind(AssertUnwindSafe(|| unsafe { *kb_ptr = build_kb(&clauses) })) {
                    Ok(()) => {
                        asserted = next;
                        version = rec.versions.iter().position(|v| *v == asserted).unwrap_or(0);
                        OpResult::Asserted { version }
                    }
                    Err(p) => OpResult::Panic(panic_message(&p)),
                }
            }
            Op::Next { h } => match handles.get(h) {
                None => OpResult::Skipped,
                Some(hd) => {
                    let sn = Rc::clone(&hd.sn);
                    match catch_unwind(AssertUnwindSafe(|| next_solution(sn))) {
                        Ok(Some(ss)) => OpResult::Next(Some(format_answer(&hd.goal, &ss))),
                        Ok(None) => OpResult::Next(None),
                        Err(p) => abort_result(p),
                    }
                }
            },
            Op::Solve { h } => match handles.get(h) {
                None => OpResult::Skipped,
                Some(hd) => {
                    let sn = Rc::clone(&hd.sn);
                    match catch_unwind(AssertUnwindSafe(|| solve(sn))) {
                        Ok(s) => OpResult::Solve(s),
                        Err(p) => abort_result(p),
                    }
                }
            },
            Op::SolveAll { h } => match handles.get(h) {
                None => OpResult::Skipped,
                Some(hd) => {
                    let sn = Rc::clone(&hd.sn);
                    match catch_unwind(AssertUnwindSafe(|| solve_all(sn))) {
                        Ok(v) => OpResult::SolveAll(v),
                        Err(p) => abort_result(p),
                    }
                }
            },
            Op::Stop { after } => {
                if *after == 0 {
                    match catch_unwind(AssertUnwindSafe(stop_query)) {
                        Ok(()) => OpResult::Stopped,
                        Err(p) => OpResult::Panic(panic_message(&p)),
                    }
                } else {
                    SIM.with(|s| s.borrow_mut().stop_armed = Some(*after));
                    OpResult::Stopped
                }
            }
            Op::Idle { ms } => {
                SIM.with(|s| s.borrow_mut().in_op = false);
                idle(*ms);
                OpResult::Idle
            }
            Op::Drop { h } => {
                if handles.remove(h).is_some() {
                    OpResult::Dropped
                } else {
                    OpResult::Skipped
                }
            }
        };
        let flag_on_return = vp::peek_flag();
        let output = take_output();
        let t_ret = simtime::now_us();
        let (thunks, steps_after, call_id, user_stop) = SIM.with(|s| {
            let mut s = s.borrow_mut();
            s.in_op = false;
            s.in_call = None;
            if s.answer_op {
                // a stop armed for this search that the search did not reach
                s.stop_armed = None;
            }
            s.answer_op = false;
            s.sync_timers();
            let call_id = if s.call_seq > calls_before { s.call_seq } else { 0 };
            (s.thunks_in_op.clone(), s.steps, call_id, s.user_stop_in_op)
        });
        let stop = matches!(result, OpResult::Panic(_) | OpResult::NoHalt { .. } | OpResult::Budget | OpResult::Backstop);
        rec.ops.push(OpRecord {
            index,
            op: scn.history[index].clone(),
            result,
            output,
            t_call_us: t_call,
            t_ret_us: t_ret,
            flag_on_return,
            flag_before,
            thunks,
            call_id,
            steps: steps_after - steps_before,
            user_stop,
        });
        if stop {
            break;
        }
    }
    let aborted = rec.ops.last().map(|o| matches!(o.result, OpResult::Panic(_) | OpResult::NoHalt { .. } | OpResult::Budget | OpResult::Backstop)).unwrap_or(false);

    // ---- drain: every timer still waiting fires inside the run ----
    SIM.with(|s| s.borrow_mut().event(0, "drain"));
    rec.drained = drain();
    drop(handles);
    rec.final_version = version;

    // ---- post-check: the same queries once more, globals as the history left them ----
    SIM.with(|s| s.borrow_mut().mode = Mode::Baseline);
    if scn.post_check && rec.drained && !aborted {
        let mut post = vec![];
        for q in &scn.queries {
            // SAFETY: every query instance has been dropped
            match run_plain(q, unsafe { &*kb_ptr }, false, 400) {
                Ok(b) => post.push(b),
                Err(why) => {
                    // reported through an empty, incomplete record
                    post.push(Baseline { answers: vec![format!("<<{}>>", why)], answers_alt: vec![], outs: vec![], final_out: None, complete: false, steps: 0 });
                }
            }
        }
        rec.post = Some(post);
    }
    // SAFETY: allocated above with Box::into_raw; no reference to it is left
    unsafe { drop(Box::from_raw(kb_ptr)) };
    vp::set_probe(None);
    start_query();
    // start_query() is the documented way to begin a query with the stop flag clear. If the flag
    // is still set now, every later query in this process is stopped before it starts — the
    // history of this run has broken the process for all queries to come.
    rec.flag_stuck_after_start_query = vp::peek_flag();

    SIM.with(|s| {
        let mut s = s.borrow_mut();
        s.mode = Mode::Off;
        rec.faults = std::mem::take(&mut s.faults);
        rec.trace_hash = s.trace_hash;
        rec.trace = std::mem::take(&mut s.trace);
        rec.steps = s.steps;
        rec.timers_started = s.call_seq;
    });
    rec.virtual_us = simtime::now_us();
    rec
}

fn abort_result(p: Box<dyn std::any::Any + Send>) -> OpResult {
    if let Some(a) = p.downcast_ref::<AbortNoHalt>() {
        OpResult::NoHalt { steps_since_flag: a.steps_since_flag, bound: a.bound }
    } else if p.downcast_ref::<AbortBudget>().is_some() {
        OpResult::Budget
    } else if p.downcast_ref::<AbortDepth>().is_some() {
        OpResult::Backstop
    } else {
        OpResult::Panic(panic_message(&p))
    }
}

/// Resident set size of this process in KiB (0 if unknown). Used only to stop *early* — a
/// minimisation or a chunk of runs — before the engine's leaked proof trees exhaust memory.
pub fn resident_kib() -> u64 {
    std::fs::read_to_string("/proc/self/statm")
        .ok()
        .and_then(|t| t.split(' ').nth(1).and_then(|v| v.parse::<u64>().ok()))
        .unwrap_or(0)
        * 4
}

/// Progress counter for the worker's watchdog.
pub static HEARTBEAT: std::sync::atomic::AtomicU64 = std::sync::atomic::AtomicU64::new(0);

/// Engine panics and the harness's own aborts are caught and turned into results; the default
/// hook's message and backtrace (slow to symbolise) are noise. Must be called before the first
/// shuttle execution (shuttle wraps whatever hook is installed then).
pub fn quiet_panics() {
    if std::env::var("QSIM_PANIC_MESSAGES").is_err() {
        std::panic::set_hook(Box::new(|_| {}));
    }
}

// ------------------------------------------------------------------------------------------
// The engine thread: one OS thread owns every shuttle execution of this process (and with it
// the thread-local simulator state and the engine's process-wide globals). It keeps one shuttle
// `Runner` alive across runs so that coroutine stacks are reused; `execute` hands it a scenario
// and waits for the record. Runs are strictly sequential.
// ------------------------------------------------------------------------------------------

struct Job {
    scn: Arc<Scenario>,
    opts: ExecOpts,
    baselines: Arc<Result<Vec<Vec<Baseline>>, String>>,
}

struct EngineShared {
    jobs: std::sync::mpsc::Receiver<Job>,
    results: std::sync::mpsc::Sender<RunOutcome>,
    current: Option<Job>,
    sched: Option<SchedState>,
    record: Option<RunRecord>,
}

struct EngineScheduler {
    shared: Arc<Mutex<EngineShared>>,
}

fn finish_record(mut rec: RunRecord, log: &SchedLog) -> RunRecord {
    rec.choice_points = log.choice_points;
    rec.sched_points = log.sched_points;
    rec.deviations = log.deviations.clone();
    rec.sched_hash = log.hash;
    rec.script_misses = log.script_misses;
    rec.max_runnable = log.max_runnable;
    if log.holds > 0 {
        *rec.faults.entry("timer_thread_held_back".to_string()).or_insert(0) += log.holds;
    }
    rec
}

impl shuttle::scheduler::Scheduler for EngineScheduler {
    fn new_execution(&mut self) -> Option<shuttle::scheduler::Schedule> {
        let mut sh = self.shared.lock().unwrap();
        // report the run that just ended
        if sh.current.take().is_some() {
            let outcome = match (sh.record.take(), sh.sched.take()) {
                (Some(rec), Some(st)) => RunOutcome::Done(finish_record(rec, &st.log)),
                _ => RunOutcome::HarnessError("run produced no record".to_string()),
            };
            let _ = sh.results.send(outcome);
        }
        // wait for the next one
        match sh.jobs.recv() {
            Err(_) => None,
            Ok(job) => {
                sh.sched = Some(SchedState::new(job.scn.sched.clone(), job.scn.sched_seed));
                sh.current = Some(job);
                Some(shuttle::scheduler::Schedule::new(0))
            }
        }
    }
    fn next_task(
        &mut self,
        runnable: &[&shuttle::scheduler::Task],
        current: Option<shuttle::scheduler::TaskId>,
        is_yielding: bool,
    ) -> Option<shuttle::scheduler::TaskId> {
        let mut sh = self.shared.lock().unwrap();
        let st = sh.sched.as_mut().expect("scheduler state");
        crate::sched::next_task(st, runnable, current, is_yielding)
    }
    fn next_u64(&mut self) -> u64 {
        let mut sh = self.shared.lock().unwrap();
        sh.sched.as_mut().map(|s| s.rng.next_u64()).unwrap_or(0)
    }
}

fn engine_main(jobs: std::sync::mpsc::Receiver<Job>, results: std::sync::mpsc::Sender<RunOutcome>) {
    install_capture();
    let shared = Arc::new(Mutex::new(EngineShared { jobs, results, current: None, sched: None, record: None }));
    loop {
        let mut config = shuttle::Config::new();
        config.stack_size = 16 << 20;
        config.max_steps = shuttle::MaxSteps::None;
        config.failure_persistence = shuttle::FailurePersistence::None;
        config.silence_warnings = true;
        let sh_sched = Arc::clone(&shared);
        let sh_body = Arc::clone(&shared);
        let run = catch_unwind(AssertUnwindSafe(|| {
            let runner = shuttle::Runner::new(EngineScheduler { shared: sh_sched }, config);
            runner.run(move || {
                let (scn, opts, baselines) = {
                    let sh = sh_body.lock().unwrap();
                    let job = sh.current.as_ref().expect("current job");
                    (Arc::clone(&job.scn), job.opts, Arc::clone(&job.baselines))
                };
                let rec = run_body(&scn, opts, &baselines);
                sh_body.lock().unwrap().record = Some(rec);
            });
        }));
        // whatever happened, leave the globals clean for the next run in this process
        vp::set_probe(None);
        SIM.with(|s| s.borrow_mut().mode = Mode::Off);
        match run {
            Ok(_) => break, // job channel closed
            Err(p) => {
                // deadlock reported by shuttle, or a panic that escaped a task: this run is a
                // harness error; a fresh Runner serves the next job
                let _ = take_output();
                start_query();
                let mut sh = match shared.lock() {
                    Ok(g) => g,
                    Err(poison) => poison.into_inner(),
                };
                sh.current = None;
                let sched = sh.sched.take();
                let record = sh.record.take();
                // An operation that was aborted inside solve/solve_all (engine panic, search not
                // halted, budget) unwinds through a live ThreadTimer; shuttle skips its Drop while
                // panicking, so the timer thread later blocks on a channel that is never closed and
                // shuttle reports a deadlock when the run ends. The record is complete by then.
                let aborted = record
                    .as_ref()
                    .and_then(|r| r.ops.last())
                    .map(|o| matches!(o.result, OpResult::Panic(_) | OpResult::NoHalt { .. } | OpResult::Budget | OpResult::Backstop))
                    .unwrap_or(false);
                let outcome = match (record, sched) {
                    (Some(rec), Some(st)) if aborted => RunOutcome::Done(finish_record(rec, &st.log)),
                    _ => RunOutcome::HarnessError(panic_message(&p)),
                };
                let _ = sh.results.send(outcome);
            }
        }
    }
}

struct EngineHandle {
    jobs: std::sync::mpsc::Sender<Job>,
    results: std::sync::mpsc::Receiver<RunOutcome>,
}

static ENGINE: std::sync::OnceLock<Mutex<EngineHandle>> = std::sync::OnceLock::new();

/// Runs one scenario under shuttle with the seeded scheduler.
pub fn execute(scn: &Scenario, opts: ExecOpts) -> RunOutcome {
    HEARTBEAT.fetch_add(1, std::sync::atomic::Ordering::Relaxed);
    // before the first baseline prints anything
    install_capture();
    let engine = ENGINE.get_or_init(|| {
        let (jtx, jrx) = std::sync::mpsc::channel::<Job>();
        let (rtx, rrx) = std::sync::mpsc::channel::<RunOutcome>();
        std::thread::Builder::new()
            .name("qsim-engine".to_string())
            .stack_size(8 << 20)
            .spawn(move || engine_main(jrx, rtx))
            .expect("spawn engine thread");
        Mutex::new(EngineHandle { jobs: jtx, results: rrx })
    });
    let e = engine.lock().unwrap();
    // the reference first, on a thread of its own (runs are strictly sequential: the engine thread is
    // idle while this one works)
    let baselines = Arc::new(pristine_baselines(scn, opts));
    if e.jobs.send(Job { scn: Arc::new(scn.clone()), opts, baselines }).is_err() {
        return RunOutcome::HarnessError("engine thread is gone".to_string());
    }
    match e.results.recv() {
        Ok(o) => o,
        Err(_) => RunOutcome::HarnessError("engine thread ended without a result".to_string()),
    }
}
