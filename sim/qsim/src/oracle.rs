//! Oracles of C05, C22 and C23 over the record of one run.
//!
//! The reference is the engine's own pristine-state behaviour (the baseline
//! of every query, taken in the same process with the globals reset and no
//! timer) plus a small model of the API contract kept per query instance:
//! how many answers were consumed, whether the end was reported, whether a
//! time-out made the instance's search state undefined ("tainted").
//!
//! Each check reports only violations of its own property.

use crate::exec::*;
use serde::{Deserialize, Serialize};
use simcore::ast::{GoalSpec, QueryClass};
use simcore::scenario::*;
use std::collections::BTreeMap;

#[derive(Serialize, Deserialize, Clone, Debug, PartialEq, Eq)]
pub struct Violation {
    pub property: String,
    /// violation class, e.g. "answer_after_exhaustion", "spurious_timeout"
    pub class: String,
    pub op_index: usize,
    pub op: String,
    pub expected: String,
    pub observed: String,
    pub detail: String,
}

impl Violation {
    /// What must stay the same while minimising: property, class and the kind of operation.
    pub fn signature(&self) -> String {
        let kind = self.op.split(|c: char| !c.is_alphanumeric()).next().unwrap_or("").to_string();
        format!("{}:{}:{}", self.property, self.class, kind)
    }
}

#[derive(Clone, Copy, PartialEq, Eq, Debug)]
enum Status {
    Live,
    /// the end was reported (None / "No more." / complete solve_all)
    Ended,
    /// a time-out (or a halted search) left the search state undefined
    Tainted,
}

struct Model {
    q: usize,
    /// version of the knowledge base the instance was built on
    version: usize,
    pos: usize,
    status: Status,
    /// the end was reported by an operation that returned with the stop flag clear
    genuinely_exhausted: bool,
    /// the end was reported at all (None, `No more.`, a solve_all list without the time-out
    /// line), with the stop flag clear or set
    reported_end: bool,
    /// an older query instance was stepped after this one was built: two interleaved
    /// searches, which is outside "queries that ran before" — no longer judged for C22/C23
    disturbed: bool,
}

pub struct Judgement {
    pub violations: Vec<Violation>,
    pub counters: BTreeMap<String, u64>,
}

fn bump(c: &mut BTreeMap<String, u64>, k: &str) {
    *c.entry(k.to_string()).or_insert(0) += 1;
}

fn show_list(v: &[String]) -> String {
    format!("{:?}", v)
}

pub fn judge(property: &str, scn: &Scenario, rec: &RunRecord) -> Judgement {
    let mut viol: Vec<Violation> = vec![];
    let mut cnt: BTreeMap<String, u64> = BTreeMap::new();
    let mut models: BTreeMap<usize, Model> = BTreeMap::new();
    let mut current: Option<usize> = None;
    let mut version: usize = 0;
    let base = |v: usize, q: usize| -> &Baseline {
        if v < rec.baseline_v.len() && q < rec.baseline_v[v].len() {
            &rec.baseline_v[v][q]
        } else {
            &rec.baseline[q]
        }
    };

    let mut report = |p: &str, class: &str, o: &OpRecord, expected: String, observed: String, detail: String| {
        if p == property {
            viol.push(Violation {
                property: p.to_string(),
                class: class.to_string(),
                op_index: o.index,
                op: format!("{:?}", o.op),
                expected,
                observed,
                detail,
            });
        }
    };

    // reach of the program generator: which rarely used constructs this run's program contains
    {
        let text = scn.program_text().join(" ");
        for (needle, name) in [
            ("pair(", "program_has_complex_term_argument"),
            ("functor(", "program_has_functor"),
            ("include(", "program_has_include_exclude"),
            ("exclude(", "program_has_include_exclude"),
            ("join(", "program_has_join"),
            ("time(", "program_has_time_goal"),
            ("not(", "program_has_not"),
        ] {
            if text.contains(needle) {
                bump(&mut cnt, name);
            }
        }
        if scn.clauses.iter().any(|c| c.body.as_ref().map(|b| b.contains(&|g| matches!(g, GoalSpec::Cut))).unwrap_or(false)) {
            bump(&mut cnt, "program_has_cut");
        }
    }

    for o in &rec.ops {
        let d = o.t_ret_us - o.t_call_us;
        match &o.op {
            Op::Assert { .. } | Op::Reload => {
                if let OpResult::Asserted { version: v } = &o.result {
                    // every instance was dropped by the harness before the knowledge base changed
                    models.clear();
                    current = None;
                    version = *v;
                    bump(&mut cnt, if o.op == Op::Reload { "knowledge_base_replaced" } else { "knowledge_base_grew" });
                }
            }
            Op::New { h, q, .. } => {
                if let OpResult::Panic(msg) = &o.result {
                    report("C22", "panic", o, "query built".into(), format!("panic: {}", msg), String::new());
                    continue;
                }
                if o.result != OpResult::Built {
                    continue;
                }
                if let Some(c) = current {
                    if let Some(m) = models.get(&c) {
                        if m.status == Status::Live {
                            bump(&mut cnt, "abandoned_query");
                        }
                    }
                }
                if o.flag_before {
                    bump(&mut cnt, "stale_flag_at_construction");
                }
                models.insert(*h, Model { q: *q, version, pos: 0, status: Status::Live, genuinely_exhausted: false, reported_end: false, disturbed: false });
                current = Some(*h);
            }
            Op::Drop { h } => {
                if o.result == OpResult::Dropped {
                    models.remove(h);
                    if current == Some(*h) {
                        current = None;
                    }
                }
            }
            Op::Idle { .. } => {}
            Op::Stop { after } => {
                if o.result == OpResult::Stopped {
                    if *after == 0 {
                        bump(&mut cnt, "user_stop_between_operations");
                        // what the current instance answers from now on is what a halted search
                        // gives: not judged against the baseline any more
                        if let Some(c) = current {
                            if let Some(m) = models.get_mut(&c) {
                                if m.status == Status::Live {
                                    m.status = Status::Tainted;
                                }
                            }
                        }
                    } else {
                        bump(&mut cnt, "user_stop_armed");
                    }
                }
            }
            Op::Next { h } | Op::Solve { h } | Op::SolveAll { h } => {
                if o.result == OpResult::Skipped {
                    continue;
                }
                let is_current = current == Some(*h);
                if !is_current && models.contains_key(h) {
                    if let Some(c) = current {
                        if let Some(cm) = models.get_mut(&c) {
                            cm.disturbed = true;
                        }
                    }
                }
                let m = match models.get_mut(h) {
                    Some(m) => m,
                    None => continue,
                };
                let b = base(m.version, m.q);
                let class = scn.queries[m.q].class;
                if !is_current {
                    bump(&mut cnt, "resume_background_query");
                }
                if o.flag_before && matches!(o.op, Op::Next { .. }) {
                    bump(&mut cnt, "stale_flag_at_step");
                }
                if m.status == Status::Tainted {
                    bump(&mut cnt, "reask_after_timeout");
                }
                if m.status == Status::Ended || m.genuinely_exhausted {
                    bump(&mut cnt, "reask_after_exhaustion");
                }
                // C22/C23 judge the current, untainted instance only (see DESIGN.md 3.4)
                if o.user_stop {
                    bump(&mut cnt, "user_stop_during_search");
                }
                let judged = is_current && m.status != Status::Tainted && !m.disturbed && !o.user_stop;
                if o.user_stop && m.status == Status::Live {
                    // from the stop on, the instance answers what a halted search gives
                    m.status = Status::Tainted;
                }
                if judged {
                    bump(&mut cnt, "judged_operations");
                } else {
                    bump(&mut cnt, "unjudged_operations");
                }
                // C05 holds after every report of the end, also one made while the stop flag was set
                // (a halted search that says "no more" has said it)
                let was_exhausted = m.genuinely_exhausted || m.reported_end;
                if m.reported_end && !m.genuinely_exhausted {
                    bump(&mut cnt, "reask_after_halted_end");
                }

                // ---- results that are not answers at all ----
                match &o.result {
                    OpResult::Panic(msg) => {
                        if was_exhausted {
                            report("C05", "panic_after_exhaustion", o, "no answer".into(), format!("panic: {}", msg), String::new());
                        }
                        if judged {
                            report("C22", "panic", o, "an answer or the end".into(), format!("panic: {}", msg), String::new());
                            report("C23", "panic", o, "an answer, the end or a time-out".into(), format!("panic: {}", msg), String::new());
                        }
                        continue;
                    }
                    OpResult::NoHalt { steps_since_flag, bound } => {
                        report(
                            "C23",
                            "search_not_halted",
                            o,
                            format!("the call returns within {} goal attempts after the stop flag is set", bound),
                            format!("still searching after {} goal attempts", steps_since_flag),
                            String::new(),
                        );
                        continue;
                    }
                    OpResult::Budget => {
                        // A query that can only end by its time-out (10^9 goal attempts, no answer)
                        // whose solve/solve_all is still running when the run's budget of goal
                        // attempts — dozens of times what the limit plus any delay of the timer
                        // thread can account for — is used up: the call does not return.
                        if class == QueryClass::Diverges && !matches!(o.op, Op::Next { .. }) {
                            report(
                                "C23",
                                "no_return",
                                o,
                                "the time-out message, once the limit is exceeded".into(),
                                format!("still searching after {} goal attempts ({} us of virtual time)", o.steps, d),
                                format!("own timer: #{}; thunks that ran during the call: {:?}; stop flag now: {}", o.call_id, o.thunks, o.flag_on_return),
                            );
                        } else {
                            bump(&mut cnt, "inconclusive_step_budget");
                        }
                        continue;
                    }
                    OpResult::Backstop => {
                        bump(&mut cnt, "inconclusive_backstop");
                        continue;
                    }
                    _ => {}
                }

                // the known part of the remaining answer sequence
                let known_rem: &[String] = if m.pos <= b.answers.len() { &b.answers[m.pos..] } else { &[] };
                let beyond = m.pos > b.answers.len() || (m.pos == b.answers.len() && !b.complete);
                let at_end = b.complete && m.pos == b.answers.len();

                match &o.result {
                    OpResult::Next(r) => {
                        // C05
                        if was_exhausted {
                            if r.is_some() {
                                report("C05", "answer_after_exhaustion", o, "None".into(), format!("{:?}", r), "next_solution on a query that had reported the end".into());
                            } else if !o.output.is_empty() {
                                report("C05", "output_after_exhaustion", o, "no output".into(), format!("{:?}", o.output), "next_solution on a query that had reported the end".into());
                            }
                        }
                        // C22
                        if judged && class != QueryClass::Diverges && !beyond {
                            let (exp, exp_out): (Option<String>, String) = if at_end {
                                (None, if m.status == Status::Ended { String::new() } else { b.final_out.clone().unwrap_or_default() })
                            } else {
                                (Some(known_rem[0].clone()), b.outs[m.pos].clone())
                            };
                            if *r != exp {
                                report("C22", "wrong_answer", o, format!("{:?}", exp), format!("{:?}", r), format!("answer #{} of the query; stop flag before/after the call: {}/{}", m.pos + 1, o.flag_before, o.flag_on_return));
                            } else if o.output != exp_out && m.status != Status::Ended {
                                report("C22", "wrong_output", o, format!("{:?}", exp_out), format!("{:?}", o.output), String::new());
                            }
                        }
                        match r {
                            Some(_) => {
                                m.pos += 1;
                            }
                            None => {
                                m.reported_end = true;
                                if o.flag_on_return {
                                    // a halted search: the end has been reported (C05 holds from
                                    // here), but not the end of the baseline's answers
                                    if m.status == Status::Live {
                                        m.status = Status::Tainted;
                                    }
                                } else {
                                    if m.status != Status::Tainted {
                                        m.status = Status::Ended;
                                    }
                                    m.genuinely_exhausted = true;
                                    bump(&mut cnt, "exhaustions_observed");
                                }
                            }
                        }
                    }
                    OpResult::Solve(s) => {
                        let timed_out = s == TIMEOUT_MSG;
                        if was_exhausted {
                            if !timed_out && s != NO_MORE {
                                report("C05", "answer_after_exhaustion", o, NO_MORE.into(), s.clone(), "solve on a query that had reported the end".into());
                            } else if !o.output.is_empty() {
                                report("C05", "output_after_exhaustion", o, "no output".into(), format!("{:?}", o.output), "solve on a query that had reported the end".into());
                            }
                        }
                        if timed_out {
                            bump(&mut cnt, "timeouts_reported");
                            if o.user_stop {
                                // the stop button, not the limit: outside C23's statement
                                bump(&mut cnt, "stopped_by_user_reported_as_timeout");
                            } else if d < LIMIT_US {
                                report("C23", "spurious_timeout", o, "an answer or No more. (the call took less than the limit)".into(), s.clone(), format!("virtual duration of the call: {} us; thunks that ran during it: {:?}; own timer: #{}", d, o.thunks, o.call_id));
                                if judged {
                                    report("C22", "wrong_answer", o, "an answer or No more.".into(), s.clone(), format!("timed out after {} us of virtual time", d));
                                }
                            } else {
                                bump(&mut cnt, "timeouts_after_limit");
                            }
                            m.status = Status::Tainted;
                            continue;
                        }
                        if judged && !beyond {
                            let exp: String = if at_end { NO_MORE.to_string() } else { known_rem[0].clone() };
                            let alt_ok = !at_end && b.answers_alt.get(m.pos).map(|a| a == s).unwrap_or(false);
                            if *s != exp && !alt_ok {
                                report("C23", "wrong_answer", o, exp.clone(), s.clone(), format!("answer #{}; duration {} us; flag before/after: {}/{}; thunks during the call: {:?}", m.pos + 1, d, o.flag_before, o.flag_on_return, o.thunks));
                                if d < LIMIT_US {
                                    report("C22", "wrong_answer", o, exp, s.clone(), format!("answer #{}; duration {} us; thunks during the call: {:?}", m.pos + 1, d, o.thunks));
                                }
                            } else if d < LIMIT_US && m.status != Status::Ended {
                                let exp_out = if at_end { b.final_out.clone().unwrap_or_default() } else { b.outs[m.pos].clone() };
                                if o.output != exp_out {
                                    report("C22", "wrong_output", o, format!("{:?}", exp_out), format!("{:?}", o.output), String::new());
                                }
                            }
                        }
                        if s == NO_MORE {
                            m.reported_end = true;
                            if o.flag_on_return {
                                if m.status == Status::Live {
                                    m.status = Status::Tainted;
                                }
                            } else {
                                if m.status != Status::Tainted {
                                    m.status = Status::Ended;
                                }
                                m.genuinely_exhausted = true;
                                bump(&mut cnt, "exhaustions_observed");
                            }
                        } else {
                            m.pos += 1;
                        }
                    }
                    OpResult::SolveAll(list) => {
                        let timed_out = list.last().map(|s| s == TIMEOUT_MSG).unwrap_or(false);
                        let body: &[String] = if timed_out { &list[..list.len() - 1] } else { &list[..] };
                        if was_exhausted {
                            if !body.is_empty() {
                                report("C05", "answer_after_exhaustion", o, "[]".into(), show_list(list), "solve_all on a query that had reported the end".into());
                            } else if !o.output.is_empty() {
                                report("C05", "output_after_exhaustion", o, "no output".into(), format!("{:?}", o.output), "solve_all on a query that had reported the end".into());
                            }
                        }
                        if timed_out {
                            bump(&mut cnt, "timeouts_reported");
                            if o.user_stop {
                                bump(&mut cnt, "stopped_by_user_reported_as_timeout");
                            } else if d < LIMIT_US {
                                report("C23", "spurious_timeout", o, "the complete answer list (the call took less than the limit)".into(), show_list(list), format!("virtual duration of the call: {} us; thunks that ran during it: {:?}; own timer: #{}", d, o.thunks, o.call_id));
                                if judged {
                                    report("C22", "wrong_answer", o, show_list(known_rem), show_list(list), format!("timed out after {} us of virtual time", d));
                                }
                            } else {
                                bump(&mut cnt, "timeouts_after_limit");
                            }
                        }
                        if judged {
                            // prefix of the remaining answers
                            let n = body.len().min(known_rem.len());
                            let same = |i: usize| body[i] == known_rem[i] || b.answers_alt.get(m.pos + i).map(|a| *a == body[i]).unwrap_or(false);
                            let prefix_ok = (0..n).all(same) && (body.len() <= known_rem.len() || !b.complete);
                            if !prefix_ok {
                                report("C23", "not_a_prefix", o, format!("a prefix of {}", show_list(known_rem)), show_list(list), format!("duration {} us; thunks during the call: {:?}", d, o.thunks));
                                if d < LIMIT_US {
                                    report("C22", "wrong_answer", o, show_list(known_rem), show_list(list), String::new());
                                }
                            } else if !timed_out {
                                // no time-out line: the list must be complete
                                let complete = b.complete && body.len() == known_rem.len();
                                if !complete {
                                    report("C23", "incomplete_without_timeout", o, if b.complete { show_list(known_rem) } else { "a list ending with the time-out message (the query has infinitely many answers)".into() }, show_list(list), format!("duration {} us; flag after the call: {}; thunks during the call: {:?}", d, o.flag_on_return, o.thunks));
                                    if d < LIMIT_US {
                                        report("C22", "wrong_answer", o, show_list(known_rem), show_list(list), String::new());
                                    }
                                } else if d < LIMIT_US && m.status != Status::Ended && class != QueryClass::Diverges {
                                    let mut exp_out = String::new();
                                    for i in m.pos..b.answers.len() {
                                        exp_out.push_str(&b.outs[i]);
                                    }
                                    exp_out.push_str(&b.final_out.clone().unwrap_or_default());
                                    if o.output != exp_out {
                                        report("C22", "wrong_output", o, format!("{:?}", exp_out), format!("{:?}", o.output), String::new());
                                    }
                                }
                            }
                        }
                        if timed_out {
                            m.status = Status::Tainted;
                        } else {
                            m.pos += body.len();
                            m.reported_end = true;
                            if o.flag_on_return {
                                if m.status == Status::Live {
                                    m.status = Status::Tainted;
                                }
                            } else {
                                if m.status != Status::Tainted {
                                    m.status = Status::Ended;
                                }
                                m.genuinely_exhausted = true;
                                bump(&mut cnt, "exhaustions_observed");
                            }
                        }
                    }
                    _ => {}
                }
            }
        }
    }

    // ---- post-check (C22): after everything, every query still behaves as in its baseline ----
    if let Some(post) = &rec.post {
        for (i, p) in post.iter().enumerate() {
            if scn.queries[i].class == QueryClass::Diverges {
                continue;
            }
            let b = base(rec.final_version, i);
            bump(&mut cnt, "post_checks");
            if p.answers != b.answers || p.outs != b.outs || p.final_out != b.final_out || p.complete != b.complete {
                if property == "C22" {
                    viol.push(Violation {
                        property: "C22".into(),
                        class: "post_check_differs".into(),
                        op_index: scn.history.len(),
                        op: format!("PostCheck {{ q: {} }}", i),
                        expected: format!("answers {:?} outputs {:?} final {:?}", b.answers, b.outs, b.final_out),
                        observed: format!("answers {:?} outputs {:?} final {:?}", p.answers, p.outs, p.final_out),
                        detail: "query built and run with next_solution after the history and the drain".into(),
                    });
                }
            }
        }
    }

    // ---- the run must leave the process usable (C22, C23) ----
    if rec.flag_stuck_after_start_query && (property == "C22" || property == "C23") {
        viol.push(Violation {
            property: property.to_string(),
            class: "stop_flag_survives_start_query".into(),
            op_index: scn.history.len(),
            op: "AfterRun".into(),
            expected: "start_query() clears the stop flag".into(),
            observed: "the stop flag is still set after start_query(): every later query in this process is stopped before it starts".into(),
            detail: "checked after the history, the drain and the post-check".into(),
        });
    }

    Judgement { violations: viol, counters: cnt }
}
