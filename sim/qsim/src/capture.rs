//! Observation seam for the engine's `print!` output: file descriptor 1 of the
//! worker process is pointed at an in-memory file, read back after every
//! operation (after flushing Rust's stdout buffer). The worker's own reports
//! go to a result file and to stderr, never to stdout.

use std::io::Write;

pub struct Capture {
    fd: i32,
    pos: i64,
}

static REAL_STDOUT: std::sync::atomic::AtomicI32 = std::sync::atomic::AtomicI32::new(-1);

/// Writes to the process's original stdout (the one it had before the capture was installed).
pub fn write_real_stdout(text: &str) {
    let fd = REAL_STDOUT.load(std::sync::atomic::Ordering::SeqCst);
    if fd < 0 {
        print!("{}", text);
        let _ = std::io::stdout().flush();
        return;
    }
    let bytes = text.as_bytes();
    let mut off = 0;
    while off < bytes.len() {
        let n = unsafe { libc::write(fd, bytes[off..].as_ptr() as *const libc::c_void, bytes.len() - off) };
        if n <= 0 {
            break;
        }
        off += n as usize;
    }
}

impl Capture {
    pub fn install() -> Capture {
        unsafe {
            let name = b"qsim-stdout\0";
            let fd = libc::memfd_create(name.as_ptr() as *const libc::c_char, 0);
            assert!(fd >= 0, "memfd_create failed");
            let _ = std::io::stdout().flush();
            let saved = libc::dup(1);
            REAL_STDOUT.store(saved, std::sync::atomic::Ordering::SeqCst);
            assert!(libc::dup2(fd, 1) >= 0, "dup2 failed");
            Capture { fd, pos: 0 }
        }
    }

    /// Everything written to stdout since the last call.
    pub fn take(&mut self) -> Vec<u8> {
        let _ = std::io::stdout().flush();
        unsafe {
            let end = libc::lseek(self.fd, 0, libc::SEEK_END);
            let mut out = vec![0u8; (end - self.pos).max(0) as usize];
            let mut got = 0usize;
            while got < out.len() {
                let n = libc::pread(
                    self.fd,
                    out[got..].as_mut_ptr() as *mut libc::c_void,
                    out.len() - got,
                    self.pos + got as i64,
                );
                if n <= 0 {
                    break;
                }
                got += n as usize;
            }
            out.truncate(got);
            self.pos = end;
            if end > (1 << 20) {
                // start over: fd 1 shares the offset with self.fd
                libc::ftruncate(self.fd, 0);
                libc::lseek(self.fd, 0, libc::SEEK_SET);
                self.pos = 0;
            }
            out
        }
    }
}
