//! qsim — the query-session simulator (QSIM) for properties C05, C22, C23.
//!
//!   qsim check  --property C05 --tier quick|thorough [--seed N] [--runs N] [--workers N] [--max-seconds N]
//!               --evidence FILE --replay-dir DIR --known FILE
//!   qsim worker --property C05 --seed N --first I --runs N --stride K --offset J --out FILE [--max-seconds N]
//!   qsim replay FILE
//!   qsim show   --property C05 --seed N --index I        (prints the generated scenario and its run)
//!   qsim digest --property C05 --seed N --first I --runs N   (one line per run: hashes; for determinism checks)
//!
//! Exit codes: 0 property held on everything explored, 1 violation (with a
//! `VIOLATION property=<id> replay=<path>` line), 2 harness error.

mod capture;
mod exec;
mod minimise;
mod oracle;
mod sched;

use exec::*;
use minimise::*;
use oracle::*;
use serde::{Deserialize, Serialize};
use simcore::gen::gen_scenario;
use simcore::rng::{fnv1a, Rng};
use simcore::scenario::*;
use std::collections::{BTreeMap, BTreeSet};
use std::io::Write;
use std::time::Instant;

fn arg_value(args: &[String], name: &str) -> Option<String> {
    args.iter().position(|a| a == name).and_then(|i| args.get(i + 1)).cloned()
}

fn arg_u64(args: &[String], name: &str, default: u64) -> u64 {
    arg_value(args, name).and_then(|v| v.parse().ok()).unwrap_or(default)
}

#[derive(Serialize, Deserialize, Clone, Debug)]
pub struct ReplayFile {
    pub property: String,
    pub seed: u64,
    pub run_index: u64,
    pub violation: Violation,
    pub scenario: Scenario,
    pub program_text: Vec<String>,
    pub queries_text: Vec<String>,
    pub history_text: Vec<String>,
    pub schedule_deviations: BTreeMap<u64, usize>,
    pub trace_hash: u64,
    pub sched_hash: u64,
    pub faults: BTreeMap<String, u64>,
    pub operations: Vec<OpRecord>,
    pub baseline: Vec<Baseline>,
    pub trace: Vec<TraceEvent>,
    pub original_size: usize,
    pub minimised_size: usize,
    pub minimiser_tests: u64,
    /// the violation as first observed (before minimisation), in the worker that served the
    /// chunk starting at `chunk_first`
    #[serde(default)]
    pub original_violation: Option<Violation>,
    #[serde(default)]
    pub chunk_first: u64,
    /// Some(f): the violation needs the runs f..run_index before it in the same process (state that
    /// outlives a run and that start_query() does not reset). Replay = generate and execute the runs
    /// f..=run_index from the seed, in order, in one fresh process; the last one must show a
    /// violation of the same class at the same kind of operation.
    #[serde(default)]
    pub chain_first: Option<u64>,
}

#[derive(Serialize, Deserialize, Clone, Debug, Default)]
pub struct WorkerReport {
    pub runs: u64,
    pub first: u64,
    pub discarded: u64,
    pub discard_reasons: BTreeMap<String, u64>,
    pub harness_errors: Vec<String>,
    pub fault_free_runs: u64,
    pub faults: BTreeMap<String, u64>,
    pub faults_in_fault_free: BTreeMap<String, u64>,
    pub counters: BTreeMap<String, u64>,
    pub virtual_us: u64,
    pub steps: u64,
    pub choice_points: u64,
    pub sched_points: u64,
    pub timers_started: u64,
    pub nontrivial_runs: u64,
    /// hashes of (scenario, schedule, trace) of non-trivial runs
    pub distinct_runs: BTreeSet<u64>,
    pub distinct_scenarios: BTreeSet<u64>,
    pub distinct_interleavings: BTreeSet<u64>,
    pub policy_runs: BTreeMap<String, u64>,
    pub step_cost_runs: BTreeMap<String, u64>,
    pub samples: Vec<serde_json::Value>,
    pub violations: Vec<ReplayFile>,
    pub violations_total: u64,
    pub wall_s: f64,
    /// (milliseconds, run index) of the slowest runs — wall time never influences a result,
    /// this is only to find generator shapes that are too expensive
    pub slowest: Vec<(u64, u64)>,
    pub minimise_ms: u64,
}

fn scenario_hash(s: &Scenario) -> u64 {
    fnv1a(serde_json::to_string(s).unwrap().as_bytes())
}

fn policy_name(p: &SchedPolicy) -> &'static str {
    match p {
        SchedPolicy::Default => "default",
        SchedPolicy::Uniform => "uniform",
        SchedPolicy::Hold { .. } => "hold",
        SchedPolicy::Scripted { .. } => "scripted",
    }
}

fn nontrivial(property: &str, j: &Judgement, rec: &RunRecord) -> bool {
    let c = |k: &str| *j.counters.get(k).unwrap_or(&0);
    match property {
        "C05" => c("reask_after_exhaustion") >= 1,
        "C22" => c("judged_operations") >= 1 && (rec.ops.iter().filter(|o| matches!(o.op, Op::New { .. })).count() >= 2 || rec.post.is_some()),
        _ => c("judged_operations") >= 1 && rec.timers_started >= 1,
    }
}

fn sample_of(scn: &Scenario, rec: &RunRecord) -> serde_json::Value {
    serde_json::json!({
        "program": scn.program_text(),
        "queries": scn.query_text(),
        "history": scn.history.iter().map(|o| format!("{:?}", o)).collect::<Vec<_>>(),
        "time_model": {"step_cost_us": scn.time.step_cost_us, "stalls": scn.time.stalls},
        "schedule_policy": policy_name(&scn.sched),
        "results": rec.ops.iter().map(|o| format!("{:?} -> {:?} out={:?} [{}..{} us]", o.op, o.result, o.output, o.t_call_us, o.t_ret_us)).collect::<Vec<_>>(),
        "faults": rec.faults,
        "choice_points": rec.choice_points,
        "schedule_deviations": rec.deviations.len(),
    })
}

fn make_replay(property: &str, seed: u64, index: u64, original: &Scenario, f: &Failing, tests: u64) -> ReplayFile {
    // one more run with the trace switched on, for the file
    let (mut rec, _) = run_and_judge(property, &f.scenario, true).unwrap_or((f.record.clone(), vec![]));
    if rec.discard.is_some() {
        // this process can no longer run scenarios (see poisoned_at_start): keep the original record
        rec = f.record.clone();
    }
    ReplayFile {
        property: property.to_string(),
        seed,
        run_index: index,
        violation: f.violation.clone(),
        program_text: f.scenario.program_text(),
        queries_text: f.scenario.query_text(),
        history_text: f.scenario.history.iter().map(|o| format!("{:?}", o)).collect(),
        schedule_deviations: rec.deviations.clone(),
        trace_hash: rec.trace_hash,
        sched_hash: rec.sched_hash,
        faults: rec.faults.clone(),
        operations: rec.ops.clone(),
        baseline: rec.baseline.clone(),
        trace: rec.trace.clone(),
        original_size: original.size(),
        minimised_size: f.scenario.size(),
        minimiser_tests: tests,
        scenario: f.scenario.clone(),
        original_violation: None,
        chunk_first: 0,
        chain_first: None,
    }
}

fn worker(args: &[String]) -> i32 {
    let property = arg_value(args, "--property").expect("--property");
    let seed = arg_u64(args, "--seed", 1);
    let first = arg_u64(args, "--first", 0);
    let runs = arg_u64(args, "--runs", 1000);
    let stride = arg_u64(args, "--stride", 1);
    let offset = arg_u64(args, "--offset", 0);
    let max_seconds = arg_u64(args, "--max-seconds", 0);
    let out = arg_value(args, "--out").expect("--out");
    let max_violations = arg_u64(args, "--max-violations", 3);
    let started = Instant::now();
    quiet_panics();
    let mut rep = WorkerReport { first, ..Default::default() };
    // watchdog: a run that makes no progress for 60 s of wall time is a harness error, not a hang
    let beat = std::sync::Arc::new(std::sync::atomic::AtomicU64::new(0));
    {
        let beat = std::sync::Arc::clone(&beat);
        std::thread::spawn(move || {
            let mut last = u64::MAX;
            let mut same = 0;
            loop {
                std::thread::sleep(std::time::Duration::from_secs(5));
                let now = beat.load(std::sync::atomic::Ordering::SeqCst) ^ (HEARTBEAT.load(std::sync::atomic::Ordering::Relaxed) << 32);
                if now == last {
                    same += 1;
                    if same >= 12 {
                        eprintln!("watchdog: run index {} made no progress for 60 s", now & 0xffff_ffff);
                        std::process::exit(3);
                    }
                } else {
                    same = 0;
                    last = now;
                }
            }
        });
    }
    // Violations are minimised after the last run of the chunk, not in between: the runs of a chunk
    // then form one reproducible history of the process (needed when a change under test keeps
    // state across runs that start_query() does not reset — see ReplayFile::chain_first).
    let mut pending: Vec<(u64, Scenario, Failing)> = vec![];
    let mut k = 0u64;
    loop {
        let index = first + offset + k * stride;
        if index >= first + runs {
            break;
        }
        k += 1;
        if max_seconds > 0 && started.elapsed().as_secs() >= max_seconds {
            break;
        }
        // memory guard: the engine leaks its proof trees; a chunk that has grown past 3 GiB ends
        // here (its remaining indices are reported as not run)
        if k % 16 == 0 && resident_kib() > 3_000_000 {
            rep.harness_errors.push(format!("chunk starting at {} stopped at index {}: resident set above 3 GiB", first, index));
            break;
        }
        // enough violations to report: the verdict is known, stop spending time on this chunk
        if max_violations > 0 && pending.len() as u64 >= max_violations {
            break;
        }
        beat.store(index, std::sync::atomic::Ordering::SeqCst);
        let mut rng = Rng::split(seed, &property, index);
        let scn = gen_scenario(&property, &mut rng);
        rep.runs += 1;
        let t0 = Instant::now();
        let outcome = execute(&scn, ExecOpts::default());
        let ms = t0.elapsed().as_millis() as u64;
        if ms >= 200 {
            rep.slowest.push((ms, index));
            rep.slowest.sort_by(|a, b| b.cmp(a));
            rep.slowest.truncate(5);
        }
        match outcome {
            RunOutcome::HarnessError(e) => {
                if rep.harness_errors.len() < 5 {
                    rep.harness_errors.push(format!("run {}: {}", index, e));
                }
            }
            RunOutcome::Done(rec) => {
                if rec.poisoned_at_start {
                    // nothing after this can be trusted in this process; the run that caused it has
                    // been reported (stop_flag_survives_start_query)
                    rep.harness_errors.retain(|e| !e.starts_with("process poisoned"));
                    if rep.violations_total == 0 {
                        rep.harness_errors.push(format!("process poisoned before run {} although no run reported it", index));
                    }
                    rep.runs -= 1;
                    break;
                }
                if let Some(why) = &rec.discard {
                    rep.discarded += 1;
                    let key: String = why.split(' ').take(2).collect::<Vec<_>>().join(" ");
                    *rep.discard_reasons.entry(key).or_insert(0) += 1;
                    continue;
                }
                let j = judge(&property, &scn, &rec);
                for (name, n) in &rec.faults {
                    *rep.faults.entry(name.clone()).or_insert(0) += n;
                    if scn.fault_free {
                        *rep.faults_in_fault_free.entry(name.clone()).or_insert(0) += n;
                    }
                }
                for (name, n) in &j.counters {
                    *rep.counters.entry(name.clone()).or_insert(0) += n;
                }
                if scn.fault_free {
                    rep.fault_free_runs += 1;
                }
                rep.virtual_us += rec.virtual_us;
                rep.steps += rec.steps;
                rep.choice_points += rec.choice_points;
                rep.sched_points += rec.sched_points;
                rep.timers_started += rec.timers_started;
                *rep.policy_runs.entry(policy_name(&scn.sched).to_string()).or_insert(0) += 1;
                *rep.step_cost_runs.entry(format!("{}us", scn.time.step_cost_us)).or_insert(0) += 1;
                let sh = scenario_hash(&scn);
                if nontrivial(&property, &j, &rec) {
                    rep.nontrivial_runs += 1;
                    rep.distinct_runs.insert(sh ^ rec.sched_hash.rotate_left(21) ^ rec.trace_hash.rotate_left(42));
                    rep.distinct_scenarios.insert(sh);
                    if rec.choice_points > 0 {
                        rep.distinct_interleavings.insert(rec.sched_hash ^ rec.trace_hash.rotate_left(7));
                    }
                    if rep.samples.len() < 2 && (rec.timers_started > 0 || property == "C05") && rep.runs > 3 {
                        rep.samples.push(sample_of(&scn, &rec));
                    }
                }
                if let Some(v) = j.violations.first() {
                    rep.violations_total += 1;
                    if (pending.len() as u64) < max_violations {
                        pending.push((index, scn.clone(), Failing { scenario: scn.clone(), violation: v.clone(), record: rec.clone() }));
                    }
                }
            }
        }
    }
    for (index, scn, failing) in pending {
        let original = failing.violation.clone();
        let t1 = Instant::now();
        let (min, tests) = minimise(&property, failing);
        rep.minimise_ms += t1.elapsed().as_millis() as u64;
        let mut rf = make_replay(&property, seed, index, &scn, &min, tests);
        rf.original_violation = Some(original);
        rf.chunk_first = first;
        rep.violations.push(rf);
    }
    rep.wall_s = started.elapsed().as_secs_f64();
    std::fs::write(&out, serde_json::to_string(&rep).unwrap()).expect("write worker report");
    0
}

/// Re-runs a recorded violation. Exit 1 and a VIOLATION line iff it reproduces exactly.
fn replay(path: &str, quiet: bool) -> i32 {
    let text = match std::fs::read_to_string(path) {
        Ok(t) => t,
        Err(e) => {
            eprintln!("cannot read {}: {}", path, e);
            return 2;
        }
    };
    let rf: ReplayFile = match serde_json::from_str(&text) {
        Ok(r) => r,
        Err(e) => {
            eprintln!("cannot parse {}: {}", path, e);
            return 2;
        }
    };
    quiet_panics();
    if let Some(chain_first) = rf.chain_first {
        // a history of several generated runs in one process
        let want = rf.original_violation.as_ref().map(|v| v.signature()).unwrap_or_default();
        let mut last: Vec<Violation> = vec![];
        for index in chain_first..=rf.run_index {
            let mut rng = Rng::split(rf.seed, &rf.property, index);
            let scn = gen_scenario(&rf.property, &mut rng);
            match run_and_judge_full(&rf.property, &scn) {
                Err(e) => {
                    eprintln!("harness error during chain replay at run {}: {}", index, e);
                    return 2;
                }
                Ok(v) => last = v,
            }
        }
        return match last.iter().find(|v| v.signature() == want) {
            Some(v) => {
                if !quiet {
                    eprintln!("replayed (runs {}..={} in one process): {} {} at operation {} ({})", chain_first, rf.run_index, v.property, v.class, v.op_index, v.op);
                    eprintln!("  expected: {}", v.expected);
                    eprintln!("  observed: {}", v.observed);
                }
                capture::write_real_stdout(&format!("VIOLATION property={} replay={}\n", rf.property, path));
                1
            }
            None => {
                eprintln!("NOT REPRODUCED: {} (chain {}..={} gives: {:?})", path, chain_first, rf.run_index, last.first());
                0
            }
        };
    }
    match run_and_judge(&rf.property, &rf.scenario, true) {
        Err(e) => {
            eprintln!("harness error during replay: {}", e);
            2
        }
        Ok((rec, viols)) => {
            let same = viols.iter().find(|v| **v == rf.violation);
            match same {
                Some(v) if rec.trace_hash == rf.trace_hash && rec.sched_hash == rf.sched_hash => {
                    if !quiet {
                        eprintln!("replayed: {} {} at operation {} ({})", v.property, v.class, v.op_index, v.op);
                        eprintln!("  expected: {}", v.expected);
                        eprintln!("  observed: {}", v.observed);
                        eprintln!("  {}", v.detail);
                        eprintln!("  program: {:?}", rf.program_text);
                        eprintln!("  history: {:?}", rf.history_text);
                    }
                    capture::write_real_stdout(&format!("VIOLATION property={} replay={}\n", rf.property, path));
                    1
                }
                Some(_) => {
                    eprintln!("violation reproduced but the event trace differs (trace {:x} vs {:x}, schedule {:x} vs {:x})", rec.trace_hash, rf.trace_hash, rec.sched_hash, rf.sched_hash);
                    3
                }
                None => {
                    eprintln!("NOT REPRODUCED: {} (this tree gives: {:?})", path, viols.first());
                    0
                }
            }
        }
    }
}

/// One generated run exactly as a worker executes it (default budgets), judged.
fn run_and_judge_full(property: &str, scn: &Scenario) -> Result<Vec<Violation>, String> {
    match execute(scn, ExecOpts::default()) {
        RunOutcome::HarnessError(e) => Err(e),
        RunOutcome::Done(rec) => {
            if rec.discard.is_some() {
                return Ok(vec![]);
            }
            Ok(judge(property, scn, &rec).violations)
        }
    }
}

fn show(args: &[String]) -> i32 {
    let property = arg_value(args, "--property").expect("--property");
    let seed = arg_u64(args, "--seed", 1);
    let index = arg_u64(args, "--index", 0);
    quiet_panics();
    let mut rng = Rng::split(seed, &property, index);
    let scn = gen_scenario(&property, &mut rng);
    eprintln!("{}", serde_json::to_string_pretty(&sample_of(&scn, &RunRecord::default())).unwrap());
    match run_and_judge(&property, &scn, true) {
        Err(e) => {
            eprintln!("harness error: {}", e);
            2
        }
        Ok((rec, viols)) => {
            eprintln!("discard: {:?}", rec.discard);
            for (i, b) in rec.baseline.iter().enumerate() {
                eprintln!("baseline[{}] {} : {:?}", i, scn.queries[i], b);
            }
            for o in &rec.ops {
                eprintln!("{:?}", o);
            }
            eprintln!("post: {:?}", rec.post);
            eprintln!("faults: {:?}  drained: {}  choice points: {} deviations: {}", rec.faults, rec.drained, rec.choice_points, rec.deviations.len());
            for t in &rec.trace {
                eprintln!("   #{} task{} {} @{}us", t.seq, t.task, t.what, t.at_us);
            }
            eprintln!("violations: {:#?}", viols);
            0
        }
    }
}

fn digest(args: &[String]) -> i32 {
    let property = arg_value(args, "--property").expect("--property");
    let seed = arg_u64(args, "--seed", 1);
    let first = arg_u64(args, "--first", 0);
    let runs = arg_u64(args, "--runs", 100);
    quiet_panics();
    let mut out = std::io::stderr();
    for index in first..first + runs {
        let mut rng = Rng::split(seed, &property, index);
        let scn = gen_scenario(&property, &mut rng);
        let line = match execute(&scn, ExecOpts::default()) {
            RunOutcome::HarnessError(e) => format!("{} HARNESS {}", index, e),
            RunOutcome::Done(rec) => {
                let ops = fnv1a(serde_json::to_string(&rec.ops).unwrap().as_bytes());
                let base = fnv1a(serde_json::to_string(&rec.baseline).unwrap().as_bytes());
                format!("{} {:016x} {:016x} {:016x} {:016x} {:016x} {} {}", index, scenario_hash(&scn), rec.sched_hash, rec.trace_hash, ops, base, rec.virtual_us, rec.steps)
            }
        };
        writeln!(out, "{}", line).unwrap();
    }
    0
}

mod supervisor;

fn main() {
    // keep freed memory in the process: the default trimming gives pages back to the kernel and
    // faults them in again on every run (measured: 200 faults per simulated run)
    unsafe {
        libc::mallopt(libc::M_TRIM_THRESHOLD, 1 << 30);
        libc::mallopt(libc::M_MMAP_THRESHOLD, 1 << 30);
        libc::mallopt(libc::M_TOP_PAD, 64 << 20);
    }
    let args: Vec<String> = std::env::args().collect();
    let code = match args.get(1).map(|s| s.as_str()) {
        Some("worker") => worker(&args),
        Some("check") => supervisor::check(&args),
        Some("replay") => replay(args.get(2).expect("replay FILE"), args.iter().any(|a| a == "--quiet")),
        Some("show") => show(&args),
        Some("digest") => digest(&args),
        Some("leak") => {
            // diagnostic: the same scenario many times, resident set before and after
            let property = arg_value(&args, "--property").expect("--property");
            let index = arg_u64(&args, "--index", 0);
            let n = arg_u64(&args, "--times", 500);
            quiet_panics();
            let mut rng = Rng::split(arg_u64(&args, "--seed", 1), &property, index);
            let scn = gen_scenario(&property, &mut rng);
            let rss = || -> u64 {
                std::fs::read_to_string("/proc/self/statm").ok().and_then(|t| t.split(' ').nth(1).and_then(|v| v.parse::<u64>().ok())).unwrap_or(0) * 4
            };
            let _ = execute(&scn, ExecOpts::default());
            let a = rss();
            for _ in 0..n {
                let _ = execute(&scn, ExecOpts::default());
            }
            let b = rss();
            eprintln!("rss before {} KiB after {} KiB: {} KiB per run; clauses {} ops {}", a, b, (b - a) / n.max(1), scn.clauses.len(), scn.history.len());
            0
        }
        _ => {
            eprintln!("usage: qsim check|worker|replay|show|digest ...");
            2
        }
    };
    // stdout is captured; everything is reported on stderr and in files
    std::process::exit(code);
}
