//! simtime — the virtual clock of the query-session simulator (QSIM).
//!
//! shuttle does not model time: its `Condvar::wait_timeout_while` never times
//! out. This crate supplies the one missing piece — a clock in microseconds
//! that only the simulator advances, and a `wait_timeout_while` that times
//! out against that clock — and nothing else. Threads, mutexes and condvars
//! stay shuttle's.
//!
//! Contract reproduced (std::sync::Condvar::wait_timeout_while):
//!   loop { if !condition(guard) -> (guard, timed_out = false)
//!          if elapsed >= dur    -> (guard, timed_out = true)
//!          guard = wait(guard) }
//! A sleeper is woken at its deadline or later, never earlier.
//!
//! Everything here lives in thread-local state: a shuttle execution runs all
//! of its tasks as coroutines on one OS thread.

use shuttle::sync::{Condvar, LockResult, MutexGuard};
use std::cell::RefCell;
use std::time::Duration;

/// Result type of the timed wait, mirroring std's `WaitTimeoutResult`.
#[derive(Debug, PartialEq, Eq, Copy, Clone)]
pub struct WaitTimeoutResult(bool);

impl WaitTimeoutResult {
    pub fn timed_out(&self) -> bool {
        self.0
    }
}

/// What happened to a sleeper, as seen by the clock.
#[derive(Debug, Clone, Copy, PartialEq, Eq)]
pub enum SleepEventKind {
    /// A timed wait began (the waiting thread reached `wait_timeout_while`).
    Registered,
    /// The wait ended because its deadline had passed.
    TimedOut,
    /// The wait ended because the condition became false (cancellation).
    Cancelled,
}

#[derive(Debug, Clone, Copy)]
pub struct SleepEvent {
    pub kind: SleepEventKind,
    /// Sleeper number within this run (0, 1, 2, ... in registration order).
    pub sleeper: u64,
    /// shuttle task that is sleeping.
    pub task: usize,
    /// Virtual time of the event, microseconds.
    pub at_us: u64,
    /// Deadline of the sleeper, microseconds.
    pub deadline_us: u64,
}

struct Sleeper {
    id: u64,
    task: usize,
    deadline_us: u64,
    condvar: *const Condvar,
}

#[derive(Default)]
struct Clock {
    now_us: u64,
    next_id: u64,
    sleepers: Vec<Sleeper>,
    events: Vec<SleepEvent>,
    /// Number of notify_all calls issued to wake due sleepers.
    wakeups: u64,
}

thread_local! {
    static CLOCK: RefCell<Clock> = RefCell::new(Clock::default());
}

/// Forgets everything (start of a run). Sleepers left over from an execution
/// that was torn down are dropped without being touched.
pub fn reset() {
    CLOCK.with(|c| *c.borrow_mut() = Clock::default());
}

/// Current virtual time in microseconds.
pub fn now_us() -> u64 {
    CLOCK.with(|c| c.borrow().now_us)
}

/// Earliest deadline among the registered sleepers.
pub fn next_deadline_us() -> Option<u64> {
    CLOCK.with(|c| c.borrow().sleepers.iter().map(|s| s.deadline_us).min())
}

/// Number of sleepers currently registered.
pub fn sleepers() -> usize {
    CLOCK.with(|c| c.borrow().sleepers.len())
}

/// Deadlines of the registered sleepers as (task, deadline).
pub fn sleeper_deadlines() -> Vec<(usize, u64)> {
    CLOCK.with(|c| c.borrow().sleepers.iter().map(|s| (s.task, s.deadline_us)).collect())
}

/// Takes the event log accumulated so far.
pub fn take_events() -> Vec<SleepEvent> {
    CLOCK.with(|c| std::mem::take(&mut c.borrow_mut().events))
}

pub fn wakeups() -> u64 {
    CLOCK.with(|c| c.borrow().wakeups)
}

/// Advances the clock by `us` microseconds and wakes every sleeper whose
/// deadline has been reached. Waking is a shuttle `notify_all` on the
/// sleeper's own condvar, i.e. it contains a scheduling point.
///
/// Every advance re-notifies *all* due sleepers, not only the newly due ones:
/// shuttle's `Condvar::wait` has a scheduling point between the sleeper's
/// deadline check and its registration as a waiter, so a notification can be
/// lost; the next advance repeats it.
pub fn advance_us(us: u64) {
    let due: Vec<*const Condvar> = CLOCK.with(|c| {
        let mut c = c.borrow_mut();
        c.now_us = c.now_us.saturating_add(us);
        let now = c.now_us;
        c.sleepers.iter().filter(|s| s.deadline_us <= now).map(|s| s.condvar).collect()
    });
    for cv in due {
        // Still registered? (an earlier notify in this loop may have let it finish)
        let alive = CLOCK.with(|c| c.borrow().sleepers.iter().any(|s| s.condvar == cv));
        if alive {
            CLOCK.with(|c| c.borrow_mut().wakeups += 1);
            // SAFETY: a sleeper unregisters before `wait_timeout_while` returns, and the condvar
            // outlives the call (it is borrowed by it); `alive` was checked with no scheduling
            // point in between; all tasks are coroutines on this OS thread.
            unsafe { (*cv).notify_all() };
        }
    }
}

/// Advances the clock to the absolute time `t_us` (no-op if in the past).
pub fn advance_to_us(t_us: u64) {
    let now = now_us();
    if t_us > now {
        advance_us(t_us - now);
    } else {
        advance_us(0);
    }
}

fn current_task() -> usize {
    usize::from(shuttle::current::me())
}

/// Drop-in for `Condvar::wait_timeout_while`, timed against the virtual clock.
pub fn wait_timeout_while<'a, T, F>(
    condvar: &Condvar,
    mut guard: MutexGuard<'a, T>,
    dur: Duration,
    mut condition: F,
) -> LockResult<(MutexGuard<'a, T>, WaitTimeoutResult)>
where
    F: FnMut(&mut T) -> bool,
{
    let task = current_task();
    let dur_us = dur.as_micros().min(u64::MAX as u128) as u64;
    let (id, deadline) = CLOCK.with(|c| {
        let mut c = c.borrow_mut();
        let id = c.next_id;
        c.next_id += 1;
        let deadline = c.now_us.saturating_add(dur_us);
        c.sleepers.push(Sleeper { id, task, deadline_us: deadline, condvar: condvar as *const Condvar });
        let at = c.now_us;
        c.events.push(SleepEvent { kind: SleepEventKind::Registered, sleeper: id, task, at_us: at, deadline_us: deadline });
        (id, deadline)
    });
    let finish = |kind: SleepEventKind| {
        CLOCK.with(|c| {
            let mut c = c.borrow_mut();
            c.sleepers.retain(|s| s.id != id);
            let at = c.now_us;
            c.events.push(SleepEvent { kind, sleeper: id, task, at_us: at, deadline_us: deadline });
        })
    };
    loop {
        if !condition(&mut *guard) {
            finish(SleepEventKind::Cancelled);
            return Ok((guard, WaitTimeoutResult(false)));
        }
        if now_us() >= deadline {
            finish(SleepEventKind::TimedOut);
            return Ok((guard, WaitTimeoutResult(true)));
        }
        guard = match condvar.wait(guard) {
            Ok(g) => g,
            Err(poison) => {
                finish(SleepEventKind::Cancelled);
                let g = poison.into_inner();
                return Err(std::sync::PoisonError::new((g, WaitTimeoutResult(false))));
            }
        };
    }
}
