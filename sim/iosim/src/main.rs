//! iosim — the file-load simulator (IOSIM) for property C21.
//!
//! System under simulation: load_kb_from_file -> read_facts_and_rules ->
//! line_reader -> BufReader::lines() -> strip_comments / check_last_char /
//! separate_rules -> parse_rule -> add_rules, all real. Hook H2 lets the
//! simulator supply the byte stream: a `SimFile: Read` that applies an
//! explicit fault plan (short reads, EINTR, one-off and persistent EIO, a
//! flipped stored byte that breaks UTF-8, truncation).
//!
//!   iosim check  --tier quick|thorough [--seed N] [--runs N] [--threads N] --evidence FILE --replay-dir DIR --known FILE
//!   iosim replay FILE
//!   iosim show   --seed N --index I

use simcore::textgen::*;
use serde::{Deserialize, Serialize};
use simcore::rng::{fnv1a, Rng};
use std::cell::RefCell;
use std::collections::{BTreeMap, BTreeSet};
use std::io::{self, Read};
use std::panic::{catch_unwind, AssertUnwindSafe};
use std::rc::Rc;
use std::sync::{Arc, Mutex};
use std::time::Instant;
use suiron::rule_reader::verif_io;
use suiron::*;

const SIM_PATH: &str = "/iosim/simulated-file.txt";

// ---------------------------------------------------------------------------------------------
// fault plan and simulated file
// ---------------------------------------------------------------------------------------------

#[derive(Serialize, Deserialize, Clone, Debug, PartialEq, Eq)]
pub enum Fault {
    /// read() returns at most the next size of this cyclic list
    ShortRead { sizes: Vec<usize> },
    /// ErrorKind::Interrupted at read() call number `call` (1-based)
    Eintr { call: u64 },
    /// one Err(kind) at read() call number `call`, data intact afterwards
    EioOnce {
        call: u64,
        #[serde(default)]
        kind: ErrKind,
    },
    /// every read() at or beyond byte offset `offset` fails with Err(kind)
    EioFrom {
        offset: usize,
        #[serde(default)]
        kind: ErrKind,
    },
    /// the stored byte at `offset` is replaced (breaks UTF-8)
    BadUtf8 { offset: usize, byte: u8 },
    /// end of file at byte offset `offset`
    Truncate { offset: usize },
}

/// The io::ErrorKind of an injected read error. A loader has no business treating any of them as
/// "try again": BufReader has already consumed the part of the line it had read (only
/// `Interrupted` is retried, inside std, without loss).
#[derive(Serialize, Deserialize, Clone, Copy, Debug, PartialEq, Eq, Default)]
pub enum ErrKind {
    #[default]
    Other,
    WouldBlock,
    TimedOut,
    UnexpectedEof,
    BrokenPipe,
    PermissionDenied,
    InvalidData,
    ConnectionReset,
}

impl ErrKind {
    fn to_io(self) -> io::ErrorKind {
        match self {
            ErrKind::Other => io::ErrorKind::Other,
            ErrKind::WouldBlock => io::ErrorKind::WouldBlock,
            ErrKind::TimedOut => io::ErrorKind::TimedOut,
            ErrKind::UnexpectedEof => io::ErrorKind::UnexpectedEof,
            ErrKind::BrokenPipe => io::ErrorKind::BrokenPipe,
            ErrKind::PermissionDenied => io::ErrorKind::PermissionDenied,
            ErrKind::InvalidData => io::ErrorKind::InvalidData,
            ErrKind::ConnectionReset => io::ErrorKind::ConnectionReset,
        }
    }
    const ALL: [ErrKind; 8] = [
        ErrKind::Other,
        ErrKind::WouldBlock,
        ErrKind::TimedOut,
        ErrKind::UnexpectedEof,
        ErrKind::BrokenPipe,
        ErrKind::PermissionDenied,
        ErrKind::InvalidData,
        ErrKind::ConnectionReset,
    ];
}

impl Fault {
    fn kind(&self) -> &'static str {
        match self {
            Fault::ShortRead { .. } => "short_read",
            Fault::Eintr { .. } => "eintr",
            Fault::EioOnce { .. } => "eio_once",
            Fault::EioFrom { .. } => "eio_from",
            Fault::BadUtf8 { .. } => "bad_utf8",
            Fault::Truncate { .. } => "truncate",
        }
    }
    /// Faults after which no data is lost: the file must load exactly as without them.
    fn benign(&self) -> bool {
        matches!(self, Fault::ShortRead { .. } | Fault::Eintr { .. })
    }
}

#[derive(Default, Debug, Clone)]
struct FileStats {
    calls: u64,
    bytes: u64,
    fired: BTreeMap<String, u64>,
    errors_returned: u64,
    gave_up: bool,
}

struct ReadBudgetExceeded;

struct SimFile {
    data: Vec<u8>,
    pos: usize,
    faults: Vec<Fault>,
    short_i: usize,
    stats: Rc<RefCell<FileStats>>,
    /// bounded liveness: number of further read() calls allowed after the first injected error
    budget_after_error: u64,
    calls_since_error: Option<u64>,
}

impl Read for SimFile {
    fn read(&mut self, buf: &mut [u8]) -> io::Result<usize> {
        let call = {
            let mut st = self.stats.borrow_mut();
            st.calls += 1;
            st.calls
        };
        if let Some(n) = self.calls_since_error.as_mut() {
            *n += 1;
            if *n > self.budget_after_error {
                self.stats.borrow_mut().gave_up = true;
                std::panic::panic_any(ReadBudgetExceeded);
            }
        }
        let fire = |stats: &Rc<RefCell<FileStats>>, k: &str| {
            *stats.borrow_mut().fired.entry(k.to_string()).or_insert(0) += 1;
        };
        for f in &self.faults {
            match f {
                Fault::Eintr { call: c } if *c == call => {
                    fire(&self.stats, "eintr");
                    return Err(io::Error::new(io::ErrorKind::Interrupted, "injected EINTR"));
                }
                Fault::EioOnce { call: c, kind } if *c == call => {
                    fire(&self.stats, "eio_once");
                    fire(&self.stats, &format!("error_kind_{:?}", kind));
                    self.stats.borrow_mut().errors_returned += 1;
                    self.calls_since_error.get_or_insert(0);
                    return Err(io::Error::new(kind.to_io(), "injected read error (once)"));
                }
                Fault::EioFrom { offset, kind } if self.pos >= *offset => {
                    fire(&self.stats, "eio_from");
                    self.stats.borrow_mut().errors_returned += 1;
                    self.calls_since_error.get_or_insert(0);
                    return Err(io::Error::new(kind.to_io(), "injected read error (persistent)"));
                }
                _ => {}
            }
        }
        let mut n = buf.len().min(self.data.len() - self.pos);
        for f in &self.faults {
            match f {
                Fault::ShortRead { sizes } if !sizes.is_empty() => {
                    let s = sizes[self.short_i % sizes.len()].max(1);
                    self.short_i += 1;
                    if s < n {
                        n = s;
                        fire(&self.stats, "short_read");
                    }
                }
                Fault::EioFrom { offset, .. } if self.pos < *offset => {
                    // deliver the bytes before the bad region, then fail
                    n = n.min(*offset - self.pos);
                }
                _ => {}
            }
        }
        buf[..n].copy_from_slice(&self.data[self.pos..self.pos + n]);
        self.pos += n;
        self.stats.borrow_mut().bytes += n as u64;
        Ok(n)
    }
}

// ---------------------------------------------------------------------------------------------
// scenario, execution, oracle
// ---------------------------------------------------------------------------------------------

#[derive(Serialize, Deserialize, Clone, Debug, PartialEq, Eq)]
pub struct Scenario {
    pub program: Program,
    pub rendered: Rendered,
    pub faults: Vec<Fault>,
}

#[derive(Serialize, Deserialize, Clone, Debug, PartialEq, Eq)]
pub enum Outcome {
    /// load_kb_from_file returned None; the knowledge base as format_kb prints it
    Loaded { kb: String },
    /// returned Some(message)
    Rejected { message: String },
    /// the loader (or the parser below it) panicked
    Panicked { message: String },
    /// still reading after the bound on read() calls following an injected error
    NoReturn { calls: u64 },
}

#[derive(Serialize, Deserialize, Clone, Debug, PartialEq, Eq)]
pub struct Violation {
    pub property: String,
    pub class: String,
    pub fault_kinds: Vec<String>,
    pub expected: String,
    pub observed: String,
    pub detail: String,
}

impl Violation {
    fn signature(&self) -> String {
        format!("{}:{}", self.class, self.fault_kinds.join("+"))
    }
}

fn accept_rule(text: &str) -> bool {
    matches!(catch_unwind(AssertUnwindSafe(|| parse_rule(text).is_ok())), Ok(true))
}

/// Reference: the knowledge base obtained by parse_rule on each rule text, in order.
fn reference_kb(rules: &[String]) -> Option<String> {
    let mut kb = KnowledgeBase::new();
    for r in rules {
        match catch_unwind(AssertUnwindSafe(|| parse_rule(r))) {
            Ok(Ok(rule)) => add_rules(&mut kb, vec![rule]),
            _ => return None,
        }
    }
    Some(format_kb(&kb))
}

struct Exec {
    outcome: Outcome,
    stats: FileStats,
}

fn apply_stored_faults(bytes: &[u8], faults: &[Fault]) -> Vec<u8> {
    let mut data = bytes.to_vec();
    for f in faults {
        if let Fault::BadUtf8 { offset, byte } = f {
            if *offset < data.len() {
                data[*offset] = *byte;
            }
        }
    }
    for f in faults {
        if let Fault::Truncate { offset } = f {
            if *offset < data.len() {
                data.truncate(*offset);
            }
        }
    }
    data
}

fn execute(scn: &Scenario) -> Exec {
    let bytes = scn.rendered.bytes();
    let data = apply_stored_faults(&bytes, &scn.faults);
    let stats = Rc::new(RefCell::new(FileStats::default()));
    for f in &scn.faults {
        match f {
            Fault::BadUtf8 { offset, .. } if *offset < bytes.len() => {
                *stats.borrow_mut().fired.entry("bad_utf8".into()).or_insert(0) += 1;
            }
            Fault::Truncate { offset } if *offset < bytes.len() => {
                *stats.borrow_mut().fired.entry("truncate".into()).or_insert(0) += 1;
            }
            _ => {}
        }
    }
    let budget = data.len() as u64 + 64;
    let faults = scn.faults.clone();
    let stats2 = Rc::clone(&stats);
    verif_io::set_opener(Some(Box::new(move |path: &std::path::Path| {
        if path.to_str() == Some(SIM_PATH) {
            let f: Box<dyn Read> = Box::new(SimFile {
                data: data.clone(),
                pos: 0,
                faults: faults.clone(),
                short_i: 0,
                stats: Rc::clone(&stats2),
                budget_after_error: budget,
                calls_since_error: None,
            });
            Some(Ok(f))
        } else {
            None
        }
    })));
    let result = catch_unwind(AssertUnwindSafe(|| {
        let mut kb = KnowledgeBase::new();
        let r = load_kb_from_file(&mut kb, SIM_PATH);
        (r, format_kb(&kb))
    }));
    verif_io::set_opener(None);
    let st = stats.borrow().clone();
    let outcome = match result {
        Ok((None, kb)) => Outcome::Loaded { kb },
        Ok((Some(message), _)) => Outcome::Rejected { message },
        Err(p) => {
            if p.downcast_ref::<ReadBudgetExceeded>().is_some() {
                Outcome::NoReturn { calls: st.calls }
            } else {
                let message = if let Some(s) = p.downcast_ref::<&str>() {
                    s.to_string()
                } else if let Some(s) = p.downcast_ref::<String>() {
                    s.clone()
                } else {
                    "panic".to_string()
                };
                Outcome::Panicked { message }
            }
        }
    };
    Exec { outcome, stats: st }
}

/// What is left of rule `ri` before byte offset `upto_byte`: its code pieces, each trimmed,
/// put together with single spaces (white space between the pieces of a rule has no meaning).
fn joined_rule(r: &Rendered, ri: usize, upto_byte: Option<usize>) -> String {
    let mut out = String::new();
    let mut at = 0usize;
    for p in &r.pieces {
        let len = p.text.len();
        if let PieceKind::Code { rule } = p.kind {
            if rule == ri {
                let take = match upto_byte {
                    Some(b) if at >= b => 0,
                    Some(b) if at + len > b => b - at,
                    _ => len,
                };
                // cut only at a character boundary
                let mut t = take;
                while t > 0 && !p.text.is_char_boundary(t) {
                    t -= 1;
                }
                let piece = p.text[..t].trim();
                if !piece.is_empty() {
                    if !out.is_empty() && !out.ends_with('.') {
                        out.push(' ');
                    }
                    out.push_str(piece);
                }
            }
        }
        at += len;
    }
    out
}

/// Byte offset just after the last byte of rule `ri`.
fn rule_end(r: &Rendered, ri: usize) -> usize {
    let mut at = 0usize;
    let mut end = 0usize;
    for p in &r.pieces {
        at += p.text.len();
        if let PieceKind::Code { rule } = p.kind {
            if rule == ri {
                end = at;
            }
        }
    }
    end
}

struct Verdict {
    violation: Option<Violation>,
    /// a legal layout was rejected with an error (allowed by the property's last sentence; counted)
    legal_layout_rejected: bool,
}

fn judge(scn: &Scenario, ex: &Exec) -> Verdict {
    let kinds: Vec<String> = {
        let mut k: Vec<String> = scn.faults.iter().map(|f| f.kind().to_string()).collect();
        k.sort();
        k.dedup();
        k
    };
    let all_benign = scn.faults.iter().all(|f| f.benign());
    let mk = |class: &str, expected: String, observed: String, detail: String| Verdict {
        violation: Some(Violation { property: "C21".into(), class: class.into(), fault_kinds: kinds.clone(), expected, observed, detail }),
        legal_layout_rejected: false,
    };
    let ok = Verdict { violation: None, legal_layout_rejected: false };
    let full = match reference_kb(&scn.program.rules) {
        Some(k) => k,
        None => return ok, // cannot happen: every rule was accepted by parse_rule when generated
    };
    match &ex.outcome {
        Outcome::NoReturn { calls } => mk(
            "no_return",
            "load_kb_from_file returns (an error) after a failing read".into(),
            format!("still reading after {} read() calls", calls),
            format!("{} reads failed", ex.stats.errors_returned),
        ),
        // A panic is a rejection too (what the parser does with a fragment is C18's subject).
        Outcome::Panicked { .. } => ok,
        Outcome::Rejected { message } => {
            if all_benign && !scn.program.l2 && scn.rendered.class == LayoutClass::Plain {
                mk(
                    "legal_file_rejected",
                    "loaded (plain layout, no data-losing fault)".into(),
                    format!("rejected: {}", message),
                    String::new(),
                )
            } else {
                Verdict { violation: None, legal_layout_rejected: all_benign && !scn.program.l2 }
            }
        }
        Outcome::Loaded { kb } => {
            if *kb == full {
                return ok;
            }
            // what else may a loaded knowledge base legitimately be?
            let mut allowed: Vec<String> = vec![];
            for f in &scn.faults {
                if let Fault::Truncate { offset } = f {
                    let b = *offset;
                    let complete: Vec<String> =
                        (0..scn.program.rules.len()).filter(|ri| rule_end(&scn.rendered, *ri) <= b).map(|ri| scn.program.rules[ri].clone()).collect();
                    let cut_rule = (0..scn.program.rules.len()).find(|ri| rule_end(&scn.rendered, *ri) > b);
                    let fragment = cut_rule.map(|ri| joined_rule(&scn.rendered, ri, Some(b))).unwrap_or_default();
                    // the complete rules before the cut — but only if nothing of the cut rule is left
                    // in the file: text after the last period that is silently ignored is a rule
                    // that went missing without an error
                    if fragment.is_empty() {
                        if let Some(k) = reference_kb(&complete) {
                            allowed.push(k);
                        }
                    }
                    // the cut rule, if what is left of it happens to be a complete rule by itself
                    if let Some(ri) = cut_rule {
                        let frag = joined_rule(&scn.rendered, ri, Some(b));
                        if frag.ends_with('.') && accept_rule(&frag) {
                            let mut v = complete.clone();
                            v.push(frag);
                            if let Some(k) = reference_kb(&v) {
                                allowed.push(k);
                            }
                        }
                    }
                }
            }
            if allowed.iter().any(|a| a == kb) {
                return ok;
            }
            mk(
                "silently_different_rules",
                full.clone(),
                kb.clone(),
                format!("loaded without an error, but the knowledge base is not the one obtained by parsing the file's rules one by one (reads: {}, failed reads: {})", ex.stats.calls, ex.stats.errors_returned),
            )
        }
    }
}

// ---------------------------------------------------------------------------------------------
// generation of scenarios
// ---------------------------------------------------------------------------------------------

fn gen_faults(rng: &mut Rng, len: usize) -> Vec<Fault> {
    let mut out = vec![];
    // swarm: which kinds are enabled in this run
    let n = rng.weighted(&[3, 5, 3, 1]); // number of faults
    for _ in 0..n {
        let f = match rng.weighted(&[4, 2, 3, 2, 3, 3]) {
            0 => {
                let k = rng.range(1, 4);
                Fault::ShortRead { sizes: (0..k).map(|_| *rng.pick(&[1usize, 2, 3, 7, 16, 61, 200])).collect() }
            }
            1 => Fault::Eintr { call: rng.range(1, 12) },
            2 => Fault::EioOnce { call: rng.range(1, 12), kind: *rng.pick(&ErrKind::ALL) },
            3 => Fault::EioFrom { offset: rng.usize_below(len + 1), kind: *rng.pick(&ErrKind::ALL) },
            4 => Fault::BadUtf8 { offset: rng.usize_below(len.max(1)), byte: *rng.pick(&[0xFFu8, 0xC0, 0xC1, 0xFE]) },
            _ => Fault::Truncate { offset: rng.usize_below(len + 1) },
        };
        out.push(f);
    }
    out
}

fn gen_scenario(seed: u64, index: u64) -> Scenario {
    let mut rng = Rng::split(seed, "C21", index);
    let program = gen_program(&mut rng, &accept_rule);
    let layout = gen_layout(&mut rng);
    let rendered = render(&mut rng, &program, &layout);
    let len = rendered.bytes().len();
    let faults = if rng.chance(1, 4) { vec![] } else { gen_faults(&mut rng, len) };
    Scenario { program, rendered, faults }
}

// ---------------------------------------------------------------------------------------------
// minimiser, replay files
// ---------------------------------------------------------------------------------------------

#[derive(Serialize, Deserialize, Clone, Debug)]
pub struct ReplayFile {
    pub engine: String,
    pub property: String,
    pub seed: u64,
    pub run_index: u64,
    pub violation: Violation,
    pub scenario: Scenario,
    pub rules: Vec<String>,
    pub file_text_lossy: String,
    pub file_hex: String,
    pub outcome: Outcome,
    pub read_calls: u64,
    pub original_rules: usize,
    pub original_faults: usize,
    pub minimiser_tests: u64,
}

fn fails(scn: &Scenario, sig: &str) -> Option<(Violation, Exec)> {
    let ex = execute(scn);
    match judge(scn, &ex).violation {
        Some(v) if v.signature() == sig || sig.is_empty() => Some((v, ex)),
        // while dropping faults the set of kinds shrinks: same class is enough
        Some(v) if v.class == sig.split(':').next().unwrap_or("") => Some((v, ex)),
        _ => None,
    }
}

/// Rebuilds the rendered file after rules were removed: pieces of removed rules (and the
/// decoration that followed them up to the next rule) are dropped, offsets of faults are kept
/// only if they still fall inside the file.
fn drop_rule(scn: &Scenario, ri: usize) -> Scenario {
    let mut s = scn.clone();
    s.program.rules.remove(ri);
    let mut pieces = vec![];
    let mut skipping = false;
    for p in &scn.rendered.pieces {
        match p.kind {
            PieceKind::Code { rule } if rule == ri => skipping = true,
            PieceKind::Code { rule } => {
                skipping = false;
                let nr = if rule > ri { rule - 1 } else { rule };
                pieces.push(Piece { kind: PieceKind::Code { rule: nr }, text: p.text.clone() });
            }
            PieceKind::Decoration => {
                if !skipping {
                    pieces.push(p.clone());
                }
            }
        }
    }
    s.rendered.pieces = pieces;
    s.program.l2 = s.program.rules.iter().any(|r| has_top_level_period(r));
    s
}

fn plain_layout(scn: &Scenario) -> Scenario {
    let mut s = scn.clone();
    let mut pieces = vec![];
    for (ri, r) in s.program.rules.iter().enumerate() {
        pieces.push(Piece { kind: PieceKind::Code { rule: ri }, text: r.clone() });
        pieces.push(Piece { kind: PieceKind::Decoration, text: "\n".into() });
    }
    s.rendered.pieces = pieces;
    s.rendered.class = LayoutClass::Plain;
    s
}

fn minimise(scn: &Scenario, v: &Violation) -> (Scenario, Violation, Exec, u64) {
    let sig = v.signature();
    let mut tests = 0u64;
    let mut best = scn.clone();
    let (mut bv, mut bex) = match fails(&best, &sig) {
        Some(x) => x,
        None => return (scn.clone(), v.clone(), execute(scn), 0),
    };
    let mut progress = true;
    while progress && tests < 3000 {
        progress = false;
        // faults
        let mut i = best.faults.len();
        while i > 0 {
            i -= 1;
            let mut c = best.clone();
            c.faults.remove(i);
            tests += 1;
            if let Some((v2, ex2)) = fails(&c, &sig) {
                best = c;
                bv = v2;
                bex = ex2;
                progress = true;
            }
        }
        // rules (fault offsets refer to the old layout: a candidate that no longer fails is simply rejected)
        let mut i = best.program.rules.len();
        while i > 0 && best.program.rules.len() > 1 {
            i -= 1;
            if i >= best.program.rules.len() {
                continue;
            }
            let c = drop_rule(&best, i);
            tests += 1;
            if let Some((v2, ex2)) = fails(&c, &sig) {
                best = c;
                bv = v2;
                bex = ex2;
                progress = true;
            }
        }
        // layout decorations
        let c = plain_layout(&best);
        if c.rendered.pieces != best.rendered.pieces {
            tests += 1;
            if let Some((v2, ex2)) = fails(&c, &sig) {
                best = c;
                bv = v2;
                bex = ex2;
                progress = true;
            }
        }
        // fault arguments: simpler chunk lists, earlier offsets
        for i in 0..best.faults.len() {
            let cands: Vec<Fault> = match &best.faults[i] {
                Fault::ShortRead { sizes } if sizes.len() > 1 => vec![Fault::ShortRead { sizes: vec![sizes[0]] }],
                Fault::Truncate { offset } if *offset > 0 => vec![Fault::Truncate { offset: offset / 2 }, Fault::Truncate { offset: offset - 1 }],
                Fault::EioFrom { offset, kind } if *offset > 0 => vec![Fault::EioFrom { offset: 0, kind: *kind }, Fault::EioFrom { offset: offset / 2, kind: *kind }],
                Fault::EioOnce { call, kind } if *call > 1 => vec![Fault::EioOnce { call: 1, kind: *kind }, Fault::EioOnce { call: call - 1, kind: *kind }],
                _ => vec![],
            };
            for f in cands {
                let mut c = best.clone();
                c.faults[i] = f;
                tests += 1;
                if let Some((v2, ex2)) = fails(&c, &sig) {
                    best = c;
                    bv = v2;
                    bex = ex2;
                    progress = true;
                    break;
                }
            }
        }
    }
    (best, bv, bex, tests)
}

fn hex(b: &[u8]) -> String {
    b.iter().map(|x| format!("{:02x}", x)).collect()
}

fn make_replay(seed: u64, index: u64, original: &Scenario, scn: &Scenario, v: &Violation, ex: &Exec, tests: u64) -> ReplayFile {
    let data = apply_stored_faults(&scn.rendered.bytes(), &scn.faults);
    ReplayFile {
        engine: "iosim".into(),
        property: "C21".into(),
        seed,
        run_index: index,
        violation: v.clone(),
        rules: scn.program.rules.clone(),
        file_text_lossy: String::from_utf8_lossy(&data).into_owned(),
        file_hex: hex(&data),
        outcome: ex.outcome.clone(),
        read_calls: ex.stats.calls,
        original_rules: original.program.rules.len(),
        original_faults: original.faults.len(),
        minimiser_tests: tests,
        scenario: scn.clone(),
    }
}

fn replay(path: &str) -> i32 {
    let rf: ReplayFile = match std::fs::read_to_string(path).ok().and_then(|t| serde_json::from_str(&t).ok()) {
        Some(r) => r,
        None => {
            eprintln!("cannot read or parse {}", path);
            return 2;
        }
    };
    std::panic::set_hook(Box::new(|_| {}));
    let ex = execute(&rf.scenario);
    match judge(&rf.scenario, &ex).violation {
        Some(v) if v == rf.violation && ex.outcome == rf.outcome && ex.stats.calls == rf.read_calls => {
            eprintln!("replayed: {} ({}) faults {:?}", v.class, v.detail, rf.scenario.faults);
            eprintln!("  rules: {:?}", rf.rules);
            eprintln!("  expected: {}", v.expected);
            eprintln!("  observed: {}", v.observed);
            println!("VIOLATION property=C21 replay={}", path);
            1
        }
        Some(v) => {
            eprintln!("a violation is reproduced but not the recorded one: {:?}", v);
            3
        }
        None => {
            eprintln!("NOT REPRODUCED: {} (this tree gives {:?})", path, ex.outcome);
            0
        }
    }
}

// ---------------------------------------------------------------------------------------------
// check
// ---------------------------------------------------------------------------------------------

#[derive(Default)]
struct Totals {
    runs: u64,
    fault_free_runs: u64,
    enumerated_runs: u64,
    planned: BTreeMap<String, u64>,
    fired: BTreeMap<String, u64>,
    outcomes: BTreeMap<String, u64>,
    outcome_by_kind: BTreeMap<String, u64>,
    classes: BTreeMap<String, u64>,
    legal_layout_rejected: u64,
    l2_programs: u64,
    read_calls: u64,
    bytes_read: u64,
    distinct: BTreeSet<u64>,
    combos: BTreeSet<String>,
    samples: Vec<serde_json::Value>,
    violations: Vec<ReplayFile>,
    violations_total: u64,
}

fn landing_class(scn: &Scenario, offset: usize) -> &'static str {
    let mut at = 0usize;
    for p in &scn.rendered.pieces {
        if offset < at + p.text.len() {
            return match p.kind {
                PieceKind::Code { .. } => "code",
                PieceKind::Decoration => {
                    if p.text.contains('#') || p.text.contains('%') || p.text.contains("//") {
                        "comment"
                    } else {
                        "whitespace"
                    }
                }
            };
        }
        at += p.text.len();
    }
    "end"
}

fn account(t: &mut Totals, scn: &Scenario, ex: &Exec, verdict: &Verdict, seed: u64, index: u64, enumerated: bool) {
    t.runs += 1;
    if enumerated {
        t.enumerated_runs += 1;
    }
    if scn.faults.is_empty() {
        t.fault_free_runs += 1;
    }
    if scn.program.l2 {
        t.l2_programs += 1;
    }
    for f in &scn.faults {
        *t.planned.entry(f.kind().to_string()).or_insert(0) += 1;
    }
    for (k, n) in &ex.stats.fired {
        *t.fired.entry(k.clone()).or_insert(0) += n;
    }
    let o = match &ex.outcome {
        Outcome::Loaded { .. } => "loaded",
        Outcome::Rejected { .. } => "rejected",
        Outcome::Panicked { .. } => "rejected_by_panic",
        Outcome::NoReturn { .. } => "no_return",
    };
    *t.outcomes.entry(o.to_string()).or_insert(0) += 1;
    let kinds: BTreeSet<&str> = scn.faults.iter().map(|f| f.kind()).collect();
    let kname = if kinds.is_empty() { "none".to_string() } else { kinds.iter().cloned().collect::<Vec<_>>().join("+") };
    *t.outcome_by_kind.entry(format!("{} -> {}", kname, o)).or_insert(0) += 1;
    *t.classes.entry(format!("{:?}", scn.rendered.class)).or_insert(0) += 1;
    if verdict.legal_layout_rejected {
        t.legal_layout_rejected += 1;
    }
    t.read_calls += ex.stats.calls;
    t.bytes_read += ex.stats.bytes;
    let nontrivial = ex.stats.calls > 0 && (scn.program.rules.len() > 1 || !scn.faults.is_empty());
    if nontrivial {
        t.distinct.insert(fnv1a(serde_json::to_string(scn).unwrap().as_bytes()));
    }
    for f in &scn.faults {
        let land = match f {
            Fault::BadUtf8 { offset, .. } | Fault::Truncate { offset } | Fault::EioFrom { offset, .. } => landing_class(scn, *offset),
            _ => "-",
        };
        t.combos.insert(format!("{:?}/{}/{}", scn.rendered.class, f.kind(), land));
    }
    if t.samples.len() < 3 && !scn.faults.is_empty() && scn.program.rules.len() <= 4 && index % 7 == 3 {
        t.samples.push(serde_json::json!({
            "rules": scn.program.rules,
            "file": String::from_utf8_lossy(&scn.rendered.bytes()),
            "layout_class": format!("{:?}", scn.rendered.class),
            "faults": scn.faults,
            "outcome": ex.outcome,
            "read_calls": ex.stats.calls,
        }));
    }
    if let Some(v) = &verdict.violation {
        t.violations_total += 1;
        if t.violations.len() < 4 {
            let (m, mv, mex, tests) = minimise(scn, v);
            t.violations.push(make_replay(seed, index, scn, &m, &mv, &mex, tests));
        }
    }
}

/// Every single fault of every kind at every position, for one file.
fn enumerate_faults(scn: &Scenario) -> Vec<Vec<Fault>> {
    let len = scn.rendered.bytes().len();
    let mut out: Vec<Vec<Fault>> = vec![];
    // number of read() calls of a fault-free load with 7-byte reads
    // every read returns 1, 2 or 3 bytes: every boundary between two reads, at every position
    for k in 1..=3usize {
        out.push(vec![Fault::ShortRead { sizes: vec![k] }]);
    }
    let short = Fault::ShortRead { sizes: vec![7] };
    let calls = (len / 7 + 3) as u64;
    for c in 1..=calls {
        out.push(vec![short.clone(), Fault::Eintr { call: c }]);
        // the kind of error rotates with the position, so every kind meets every sort of place
        out.push(vec![short.clone(), Fault::EioOnce { call: c, kind: ErrKind::ALL[(c as usize) % ErrKind::ALL.len()] }]);
        out.push(vec![short.clone(), Fault::EioOnce { call: c, kind: ErrKind::ALL[(c as usize + 3) % ErrKind::ALL.len()] }]);
    }
    for off in 0..=len {
        out.push(vec![Fault::Truncate { offset: off }]);
        out.push(vec![short.clone(), Fault::EioFrom { offset: off, kind: ErrKind::ALL[off % ErrKind::ALL.len()] }]);
        if off < len {
            out.push(vec![Fault::BadUtf8 { offset: off, byte: 0xFF }]);
        }
    }
    out
}

fn merge(into: &mut Totals, from: Totals) {
    into.runs += from.runs;
    into.fault_free_runs += from.fault_free_runs;
    into.enumerated_runs += from.enumerated_runs;
    into.legal_layout_rejected += from.legal_layout_rejected;
    into.l2_programs += from.l2_programs;
    into.read_calls += from.read_calls;
    into.bytes_read += from.bytes_read;
    into.violations_total += from.violations_total;
    for (k, v) in from.planned { *into.planned.entry(k).or_insert(0) += v; }
    for (k, v) in from.fired { *into.fired.entry(k).or_insert(0) += v; }
    for (k, v) in from.outcomes { *into.outcomes.entry(k).or_insert(0) += v; }
    for (k, v) in from.outcome_by_kind { *into.outcome_by_kind.entry(k).or_insert(0) += v; }
    for (k, v) in from.classes { *into.classes.entry(k).or_insert(0) += v; }
    into.distinct.extend(from.distinct);
    into.combos.extend(from.combos);
    if into.samples.len() < 3 {
        into.samples.extend(from.samples.into_iter().take(1));
    }
    into.violations.extend(from.violations);
}

fn arg_value(args: &[String], name: &str) -> Option<String> {
    args.iter().position(|a| a == name).and_then(|i| args.get(i + 1)).cloned()
}
fn arg_u64(args: &[String], name: &str, default: u64) -> u64 {
    arg_value(args, name).and_then(|v| v.parse().ok()).unwrap_or(default)
}

#[derive(Deserialize, Clone, Debug)]
struct KnownFinding {
    id: String,
    property: String,
    status: String,
    #[serde(default)]
    class: String,
    #[serde(default)]
    contains: Vec<String>,
    #[serde(default)]
    what: String,
}
#[derive(Deserialize, Clone, Debug, Default)]
struct KnownFile {
    #[serde(default)]
    findings: Vec<KnownFinding>,
}

fn check(args: &[String]) -> i32 {
    let tier = arg_value(args, "--tier").unwrap_or_else(|| "quick".into());
    let seed = arg_u64(args, "--seed", 1);
    let threads = arg_u64(args, "--threads", 16).max(1);
    let runs = arg_u64(args, "--runs", if tier == "thorough" { 40_000_000 } else { 600_000 });
    let enum_files = arg_u64(args, "--enumerate", if tier == "thorough" { 2000 } else { 150 });
    let max_seconds = arg_u64(args, "--max-seconds", if tier == "thorough" { 600 } else { 0 });
    let evidence = arg_value(args, "--evidence").expect("--evidence");
    let replay_dir = arg_value(args, "--replay-dir").expect("--replay-dir");
    let known: KnownFile = arg_value(args, "--known").and_then(|p| std::fs::read_to_string(p).ok()).and_then(|t| serde_json::from_str(&t).ok()).unwrap_or_default();
    let started = Instant::now();
    std::panic::set_hook(Box::new(|_| {}));
    println!("IOSIM check property=C21 tier={} seed={} runs<={} enumerated_files={} threads={}", tier, seed, runs, enum_files, threads);

    let total = Arc::new(Mutex::new(Totals::default()));
    let next = Arc::new(std::sync::atomic::AtomicU64::new(0));
    let block = 2000u64;
    std::thread::scope(|s| {
        for _ in 0..threads {
            let total = Arc::clone(&total);
            let next = Arc::clone(&next);
            s.spawn(move || {
                let mut t = Totals::default();
                loop {
                    let first = next.fetch_add(block, std::sync::atomic::Ordering::SeqCst);
                    if first >= runs || (max_seconds > 0 && started.elapsed().as_secs() >= max_seconds) {
                        break;
                    }
                    for index in first..(first + block).min(runs) {
                        let scn = gen_scenario(seed, index);
                        // phase 1: for the first files, every single fault at every position
                        if index < enum_files && scn.rendered.bytes().len() <= 400 {
                            let mut base = scn.clone();
                            base.faults.clear();
                            for plan in enumerate_faults(&base) {
                                let mut e = base.clone();
                                e.faults = plan;
                                let ex = execute(&e);
                                let v = judge(&e, &ex);
                                account(&mut t, &e, &ex, &v, seed, index, true);
                            }
                        }
                        let ex = execute(&scn);
                        let v = judge(&scn, &ex);
                        account(&mut t, &scn, &ex, &v, seed, index, false);
                    }
                }
                merge(&mut total.lock().unwrap(), t);
            });
        }
    });
    let mut total = std::mem::take(&mut *total.lock().unwrap());

    // ---- violations ----
    let mut exit = 0;
    let mut harness_errors: Vec<String> = vec![];
    let mut known_hits: BTreeMap<String, u64> = BTreeMap::new();
    total.violations.sort_by_key(|r| (r.scenario.program.rules.len() + r.scenario.faults.len() * 2, r.run_index));
    let mut seen: BTreeSet<String> = BTreeSet::new();
    let mut reported = 0;
    let exe = std::env::current_exe().unwrap();
    for rf in &total.violations {
        let hay = format!("{} | {} | {} | {:?} | {}", rf.violation.expected, rf.violation.observed, rf.violation.detail, rf.scenario.faults, rf.rules.join(" "));
        if let Some(k) = known.findings.iter().find(|k| k.property == "C21" && k.status == "open" && (k.class.is_empty() || k.class == rf.violation.class) && k.contains.iter().all(|c| hay.contains(c))) {
            *known_hits.entry(k.id.clone()).or_insert(0) += 1;
            continue;
        }
        if !seen.insert(rf.violation.signature()) || reported >= 5 {
            continue;
        }
        let path = format!("{}/C21-seed{}-run{}.json", replay_dir, rf.seed, rf.run_index);
        std::fs::write(&path, serde_json::to_string_pretty(rf).unwrap()).expect("write replay");
        let mut ok = true;
        for _ in 0..2 {
            let st = std::process::Command::new(&exe).args(["replay", &path]).stdout(std::process::Stdio::null()).stderr(std::process::Stdio::null()).status();
            if st.map(|s| s.code()).ok().flatten() != Some(1) {
                ok = false;
            }
        }
        if !ok {
            harness_errors.push(format!("violation of run {} does not replay exactly from {}", rf.run_index, path));
            continue;
        }
        reported += 1;
        exit = 1;
        println!("violation: C21 {} faults {:?} — {}", rf.violation.class, rf.scenario.faults, rf.violation.detail);
        println!("  rules: {:?}", rf.rules);
        println!("  file: {:?}", rf.file_text_lossy);
        println!("  outcome: {:?}", rf.outcome);
        println!("VIOLATION property=C21 replay={}", path);
    }
    for k in &known.findings {
        if k.property == "C21" && k.status == "open" {
            println!("KNOWN-FINDING: property=C21 {} ({}; re-observed {} times in this run)", k.id, k.what, known_hits.get(&k.id).unwrap_or(&0));
        }
    }

    // ---- batch self-test ----
    if total.runs >= 50_000 {
        for k in ["short_read", "eintr", "eio_once", "eio_from", "bad_utf8", "truncate"] {
            if *total.fired.get(k).unwrap_or(&0) == 0 {
                harness_errors.push(format!("fault kind {} never fired", k));
            }
        }
        if *total.outcomes.get("loaded").unwrap_or(&0) == 0 || *total.outcomes.get("rejected").unwrap_or(&0) == 0 {
            harness_errors.push("outcome classes not all reached".into());
        }
    }
    if total.runs == 0 {
        harness_errors.push("no runs executed".into());
    }

    let wall = started.elapsed().as_secs_f64();
    let ev = serde_json::json!({
        "property_id": "C21",
        "tier": tier,
        "seed": seed,
        "level": "fault_enumeration",
        "wall_s": wall,
        "violations": reported,
        "coverage": {
            "evaluations": total.runs,
            "distinct_nontrivial": total.distinct.len(),
            "rule": "one evaluation = one load_kb_from_file call on a simulated file: generated program (rule texts accepted by parse_rule) x random legal layout (line breaks at the documented continuation characters, indentation, blank lines, #/%// comments, LF or CRLF) x explicit fault plan. Phase 1 enumerates, for the first files, every single fault at every position (every read() call x {eintr, eio_once}, every byte offset x {truncate, eio_from, bad_utf8}); phase 2 draws 0-3 faults at random. Non-trivial: the file was read and it has more than one rule or at least one fault. Distinct: different (program, layout, fault plan).",
            "samples": total.samples,
            "exhaustive": false,
            "enumerated_single_fault_runs": total.enumerated_runs,
            "fault_free_runs": total.fault_free_runs,
            "runs_per_hour": if wall > 0.0 { (total.runs as f64 / wall * 3600.0) as u64 } else { 0 },
            "faults_planned": total.planned,
            "faults_fired": total.fired,
            "outcomes": total.outcomes,
            "outcomes_by_fault_kinds": total.outcome_by_kind,
            "layout_classes": total.classes,
            "programs_with_top_level_periods_L2": total.l2_programs,
            "legal_layouts_rejected_with_an_error": total.legal_layout_rejected,
            "distinct_layout_x_fault_x_landing": total.combos.len(),
            "layout_x_fault_x_landing": total.combos,
            "read_calls": total.read_calls,
            "bytes_read": total.bytes_read,
            "violations_before_dedup": total.violations_total,
            "known_findings_reobserved": known_hits,
            "components": {
                "real": ["suiron load_kb_from_file, read_facts_and_rules, strip_comments, check_last_char, separate_rules, parse_rule, add_rules (built from /repo's working tree with --cfg suiron_verif)", "std::io::BufReader and Lines"],
                "simulated": ["std::fs::File -> SimFile: Read (hook H2 in line_reader)"],
            },
            "harness_errors": harness_errors,
        },
        "assumptions": [
            "the reference knowledge base is parse_rule applied to each generated rule text, compared through format_kb (clause order per predicate included)",
            "after a data-losing fault the loader may reject the file; a rejection is never counted as a violation, a silently different knowledge base always is",
            "only the 'plain' layout class (line breaks at bracket depth 0) is required to load; rejections of other legal layouts are counted, not alarmed (the property's last sentence allows a rejection)",
            "a panic below the loader counts as a rejection (what the parsers do with fragments is C18's subject)",
        ],
    });
    if let Some(dir) = std::path::Path::new(&evidence).parent() {
        let _ = std::fs::create_dir_all(dir);
    }
    std::fs::write(&evidence, serde_json::to_string_pretty(&ev).unwrap()).expect("write evidence");
    println!("runs={} (enumerated {}) distinct={} outcomes={:?} wall_s={:.1} violations={}", total.runs, total.enumerated_runs, total.distinct.len(), total.outcomes, wall, reported);
    println!("faults fired: {:?}", total.fired);
    println!("legal layouts rejected with an error: {}; layout classes {:?}", total.legal_layout_rejected, total.classes);
    if !harness_errors.is_empty() {
        for e in &harness_errors {
            println!("HARNESS-ERROR: {}", e);
        }
        if exit == 0 {
            return 2;
        }
    }
    exit
}

fn show(args: &[String]) -> i32 {
    let seed = arg_u64(args, "--seed", 1);
    let index = arg_u64(args, "--index", 0);
    std::panic::set_hook(Box::new(|_| {}));
    let scn = gen_scenario(seed, index);
    let ex = execute(&scn);
    let v = judge(&scn, &ex);
    println!("rules: {:#?}", scn.program.rules);
    println!("file:\n{}", String::from_utf8_lossy(&scn.rendered.bytes()));
    println!("class {:?} l2 {} faults {:?}", scn.rendered.class, scn.program.l2, scn.faults);
    println!("outcome: {:?}", ex.outcome);
    println!("stats: {:?}", ex.stats);
    println!("violation: {:?}", v.violation);
    0
}

fn main() {
    let args: Vec<String> = std::env::args().collect();
    let code = match args.get(1).map(|s| s.as_str()) {
        Some("check") => check(&args),
        Some("replay") => replay(args.get(2).expect("replay FILE")),
        Some("show") => show(&args),
        _ => {
            eprintln!("usage: iosim check|replay|show ...");
            2
        }
    };
    std::process::exit(code);
}
