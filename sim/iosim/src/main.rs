fn main(){}
