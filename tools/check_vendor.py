#!/usr/bin/env python3
"""The vendored thread_timer must be the registry's 0.3.0 source except for the import lines
and the one timed wait (all marked VERIF). Anything else is a harness error."""
import difflib, glob, sys
reg = glob.glob('/root/.cargo/registry/src/*/thread_timer-0.3.0/src/lib.rs')
if not reg:
    print("check_vendor: registry copy of thread_timer-0.3.0 not found (skipped)")
    sys.exit(0)
a = open(reg[0]).read().splitlines()
b = open('/verif/sim/vendor/thread_timer/src/lib.rs').read().splitlines()
removed = [l[1:] for l in difflib.ndiff(a, b) if l.startswith('- ')]
added = [l[1:] for l in difflib.ndiff(a, b) if l.startswith('+ ')]
allowed_removed = {
 ' use std::sync::mpsc::{self, Sender};',
 ' use std::sync::{Arc, Condvar, Mutex, TryLockError};',
 ' use std::thread;',
 '         let (mut cancel_guard, cancel_res) = cancel_condvar',
 '           .wait_timeout_while(',
}
bad = [l for l in removed if l not in allowed_removed]
if bad or len(added) > 12:
    print("check_vendor: vendored thread_timer differs from the registry source beyond the VERIF lines:")
    for l in bad: print("  -", l)
    sys.exit(2)
print("check_vendor: ok (%d lines replaced, %d lines added)" % (len(removed), len(added)))
