import json, sys
R = json.load(open('/verif/selftest_results.json'))['sensitivity']
SRC = "independent sub-agent (round 6) given only the text of two properties and a scratch worktree of /repo under /tmp; nothing from /verif, no list of earlier mechanisms"
HOW = "tools/verify_seeded.sh in a scratch worktree under /tmp: demo passes on HEAD, patch applies, `cargo nextest run --workspace` = 100 passed with the change, demo fails with the change"
D = {
 "C05-r6-1": ("an early `if query_stopped() { return None; }` in the ComplexGoal branch of next_solution(), right after a rule body failed: the node reports the end although rule_index has not reached the last clause", "the stop flag set at the moment a rule with a body fails while the predicate has later clauses; then a re-ask after the flag was lowered (solve/solve_all lower it themselves)", "caught at once (histories have the stop button and the time-out; C05 is judged after every reported end)"),
 "C21-r6-1": ("a block reader (8 KiB blocks) that carries a UTF-8 character split between two blocks over to the next block but slices block[..n] instead of block[..carry+n]: the last 1-3 bytes of that block are dropped", "a multi-byte character lying across a read boundary (a short read in the middle of a character, or byte offset 8192 of a long file)", "caught at once (short reads at every read() call x non-ASCII atoms)"),
 "C21-r6-2": ("strip_comments_at_depth returns early for lines without # % /, skipping the bracket-depth bookkeeping that is carried from line to line", "a rule split inside (...) or [...] on a line without a comment character, then a closing line with a trailing comment", "caught at once (same family as C21-r4-2)"),
 "C22-r6-1": ("make_query calls clear_id() instead of start_query(): the stop flag of an earlier time-out is no longer lowered when a query is built", "a query that exceeds the 1 s limit, then a new query stepped with next_solution only", "caught at once (equivalent to F1 reverted, my mutant C22-make_query-keeps-flag)"),
 "C22-r6-2": ("make_query returns early for variable-free queries, before start_query()", "a real time-out, and the very next query built is ground", "caught at once (same family as C22-r4-1)"),
 "C23-r6-1": ("start_query_timer no longer begins a new generation (it relies on cancel_timer having done so); after a real time-out the stop bit survives into the next solve/solve_all", "a query that really times out, then solve/solve_all on an instance built earlier, with no constructor in between", "caught at once"),
 "C24-r6-1": ("query_stopped() reads the flag with a plain load through AtomicU64::as_ptr() while the timer thread writes it with compare_exchange", "a timer that fires while (or before) the calling thread reads the flag without a synchronising cancel in between", "caught at once (data race)"),
}
for k, (chg, needs, hist) in D.items():
    r = R.get(k)
    if r is None:
        print("skip", k); continue
    caught = bool(r.get("caught"))
    m = {"id": k, "round": 6, "property": k.split('-')[0], "source": SRC, "change": chg, "needs_to_manifest": needs,
         "confirmed_by_me": {"how": HOW + (" (demo under Miri: cargo +nightly miri test, -Zmiri-ignore-leaks)" if k.startswith("C24") else ""), "result": "confirmed"},
         "checks_run": "./check selftest sensitivity (patch applied to a scratch worktree under /var/tmp, VERIF_REPO), quick tier",
         "detected": {"by_check": "./check %s quick" % k.split('-')[0], "caught": caught, "violation_classes": r.get("classes", []), "wall_s": r.get("wall_s"),
                      "history": hist if caught else "NOT CAUGHT by the run recorded here (exit %s): %s" % (r.get("exit"), hist)}}
    json.dump(m, open('/verif/seeded/%s/meta.json' % k, 'w'), indent=1, ensure_ascii=False)
    print("wrote", k, caught, r.get("classes"))
