#!/usr/bin/env bash
# verify_seeded.sh <agent-out-dir> <seeded-id> <property> <mode: plain|verif|miri> 
# Confirms in a scratch worktree that a sub-agent's change (1) compiles, (2) passes the repository's
# test suite, (3) makes its demonstration fail, and that the demonstration passes without it.
# Then files it under /verif/seeded/<seeded-id>/ with meta.json (to be completed by hand).
set -u
SRC="$1"; ID="$2"; PROP="$3"; MODE="${4:-plain}"
export CARGO_NET_OFFLINE=true
W=/tmp/seedwork-$ID
git -C /repo worktree remove --force "$W" >/dev/null 2>&1
git -C /repo worktree add -q --detach "$W" HEAD || exit 2
export CARGO_TARGET_DIR=/tmp/seedwork-target
cd "$W"
run_demo() {
  cp "$SRC/demo.rs" tests/zz_seeded_demo.rs
  case "$MODE" in
    plain) cargo test --offline --test zz_seeded_demo -- --test-threads 1 >/tmp/seed-demo.log 2>&1 ;;
    verif) RUSTFLAGS="--cfg suiron_verif" cargo test --offline --test zz_seeded_demo -- --test-threads 1 >/tmp/seed-demo.log 2>&1 ;;
    miri)  MIRIFLAGS="-Zmiri-ignore-leaks ${SEED_MIRIFLAGS:-}" cargo +nightly miri test --offline --test zz_seeded_demo -- --test-threads 1 >/tmp/seed-demo.log 2>&1 ;;
  esac
  local rc=$?
  rm -f tests/zz_seeded_demo.rs
  return $rc
}
echo "== $ID: demo on the unmodified tree"
run_demo; BASE=$?
tail -3 /tmp/seed-demo.log
git apply "$SRC/patch.diff" || { echo "PATCH DOES NOT APPLY"; exit 2; }
echo "== $ID: test suite with the change"
cargo nextest run --workspace --no-fail-fast --test-threads 8 --offline 2>&1 | grep -E "Summary|FAIL" | head -5 | tee /tmp/seed-suite.log
SUITE_OK=$(grep -c "100 passed" /tmp/seed-suite.log)
# time_out::test::test_query_timer is timing dependent and fails now and then on a loaded machine
# (also on the unmodified tree): the suite counts as passing if one of three runs is clean
for try in 2 3; do
  if [ "$SUITE_OK" != 1 ]; then
    cargo nextest run --workspace --no-fail-fast --test-threads 8 --offline 2>&1 | grep -E "Summary|FAIL" | head -5 | tee /tmp/seed-suite.log
    SUITE_OK=$(grep -c "100 passed" /tmp/seed-suite.log)
  fi
done
echo "== $ID: demo with the change"
run_demo; WITH=$?
grep -E "test result|panicked|Undefined Behavior|FAILED" /tmp/seed-demo.log | head -5
cd /; git -C /repo worktree remove --force "$W"
echo "RESULT $ID: demo_without=$BASE suite_ok=$SUITE_OK demo_with=$WITH"
if [ "$BASE" = 0 ] && [ "$SUITE_OK" = 1 ] && [ "$WITH" != 0 ]; then
  mkdir -p /verif/seeded/$ID
  cp "$SRC/patch.diff" "$SRC/demo.rs" /verif/seeded/$ID/
  [ -f "$SRC/NOTES.md" ] && cp "$SRC/NOTES.md" /verif/seeded/$ID/NOTES.md
  echo "CONFIRMED $ID"
else
  echo "NOT CONFIRMED $ID"
fi
