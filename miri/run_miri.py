#!/usr/bin/env python3
"""MIRISIM driver (property C24).

Runs /verif/miri/miricorpus — the shipped suiron code (guard off, real thread_timer, real std
threads) driven through generated programs and call histories — under Miri, many times in
parallel, each run with its own Miri scheduler seed, preemption rate and borrow model, and
decides from Miri's diagnostics.

  run_miri.py --tier quick|thorough --seed S --miri-dir DIR --evidence FILE --replay-dir DIR --known FILE
  run_miri.py --replay FILE --miri-dir DIR

Exit codes: 0 no undefined behaviour beyond the listed known findings, 1 violation
(`VIOLATION property=C24 replay=<path>`), 2 harness error.

The corpus has two parts. Miri stops at the first undefined behaviour, and the cut
implementation has a known one (known_findings.json, F6): the *cut-free* part must be completely
clean; in the *cut* part every scenario runs in a process of its own and the only accepted
report is the known signature — anything else, or that report from another function, is a
violation.
"""
import argparse, json, os, re, subprocess, sys, time
from concurrent.futures import ThreadPoolExecutor

PROPERTY = "C24"


def miri_flags(job):
    flags = ["-Zmiri-seed=%d" % job["miri_seed"], "-Zmiri-preemption-rate=%s" % job["preemption"], "-Zmiri-ignore-leaks"]
    if job["model"] == "tree":
        flags.append("-Zmiri-tree-borrows")
    return " ".join(flags)


def run_job(job, miri_dir, timeout):
    env = dict(os.environ)
    env["MIRIFLAGS"] = miri_flags(job)
    env["CARGO_NET_OFFLINE"] = "true"
    env.pop("RUSTFLAGS", None)
    cmd = ["cargo", "+nightly", "miri", "run", "--offline", "-q", "--", "--seed", str(job["corpus_seed"]), "--part", job["part"],
           "--first", str(job["first"]), "--count", str(job["count"])]
    if job.get("ops_prefix") is not None:
        cmd += ["--ops-prefix", str(job["ops_prefix"])]
    t0 = time.time()
    try:
        p = subprocess.run(cmd, cwd=miri_dir, env=env, stdout=subprocess.DEVNULL, stderr=subprocess.PIPE, timeout=timeout)
        err = p.stderr.decode("utf-8", "replace")
        rc = p.returncode
    except subprocess.TimeoutExpired as e:
        err = (e.stderr or b"").decode("utf-8", "replace") + "\nTIMEOUT"
        rc = -9
    return analyse(job, rc, err, time.time() - t0)


UB_RE = re.compile(r"^error: Undefined Behavior: (.*)$", re.M)
LOC_RE = re.compile(r"^\s*--> (\S+?):(\d+):(\d+)", re.M)
INSIDE_RE = re.compile(r"(?:inside `([^`]+)`|stack backtrace:\s*\n\s*0: (\S[^\n]*))")
SCEN_RE = re.compile(r"^SCENARIO part=(\S+) index=(\d+) rules=(\d+) ops=(\d+)", re.M)
TALLY_RE = re.compile(r"^TALLY (.*)$", re.M)


def analyse(job, rc, err, wall):
    res = {"job": job, "rc": rc, "wall_s": round(wall, 2), "ub": None, "tally": {}, "scenarios_started": 0, "last_scenario": None, "harness_error": None}
    scen = SCEN_RE.findall(err)
    res["scenarios_started"] = len(scen)
    if scen:
        res["last_scenario"] = int(scen[-1][1])
    m = TALLY_RE.search(err)
    if m:
        for kv in m.group(1).split():
            if "=" in kv:
                k, v = kv.split("=", 1)
                if v.isdigit():
                    res["tally"][k] = int(v)
    ub = UB_RE.search(err)
    if ub:
        tail = err[ub.start():]
        loc = LOC_RE.search(tail)
        inside = INSIDE_RE.search(tail)
        site_file = loc.group(1) if loc else "?"
        # make the site independent of where the tree lives
        short = re.sub(r"^.*/src/", "src/", site_file)
        res["ub"] = {
            "message": ub.group(1).strip(),
            "kind": classify(ub.group(1)),
            "site": "%s:%s" % (short, loc.group(2) if loc else "?"),
            "function": ((inside.group(1) or inside.group(2)).strip() if inside else "?"),
            "excerpt": "\n".join(tail.splitlines()[:40]),
        }
    elif rc != 0:
        lines = [l for l in err.splitlines() if l.strip()]
        res["harness_error"] = "miri run ended with %s: %s" % (rc, " | ".join(lines[-6:])[:600])
    return res


def classify(msg):
    m = msg.lower()
    if "data race" in m:
        return "data_race"
    if "not granting access" in m or "protected" in m or "borrow stack" in m or "tag" in m and "does not exist" in m:
        return "aliasing_stacked_borrows"
    if "forbidden" in m or "tree borrows" in m or "reserved" in m or "disabled" in m or "frozen" in m:
        return "aliasing_tree_borrows"
    if "out-of-bounds" in m or "out of bounds" in m:
        return "out_of_bounds"
    if "dangling" in m or "freed" in m or "use-after-free" in m or "deallocated" in m:
        return "use_after_free"
    if "uninitialized" in m:
        return "uninitialized"
    if "invalid value" in m or "invalid enum" in m or "invalid char" in m:
        return "invalid_value"
    if "`assume` called with `false`" in m or "unchecked" in m or "unreachable" in m:
        return "violated_unchecked_precondition"
    return "other"


def known_match(known, ub):
    for k in known.get("findings", []):
        if k.get("property") != PROPERTY or k.get("status") != "open":
            continue
        fn_ok = any(f in ub["function"] for f in k.get("functions", [])) if k.get("functions") else True
        kind_ok = ub["kind"] in k.get("kinds", [ub["kind"]])
        file_ok = any(ub["site"].startswith(f) for f in k.get("files", [])) if k.get("files") else True
        if fn_ok and kind_ok and file_ok:
            return k
    return None


def build(miri_dir):
    env = dict(os.environ)
    env["CARGO_NET_OFFLINE"] = "true"
    env["MIRIFLAGS"] = "-Zmiri-ignore-leaks"
    env.pop("RUSTFLAGS", None)
    p = subprocess.run(["cargo", "+nightly", "miri", "run", "--offline", "-q", "--", "--count", "0"], cwd=miri_dir, env=env,
                       stdout=subprocess.DEVNULL, stderr=subprocess.PIPE)
    if p.returncode != 0:
        print("HARNESS-ERROR: building the Miri corpus failed")
        print(p.stderr.decode("utf-8", "replace")[-3000:])
        sys.exit(2)


def minimise_prefix(job, miri_dir, ub, total_ops, timeout):
    """Smallest history prefix of the single scenario that still gives the same (kind, site)."""
    lo, hi = 1, max(total_ops, 1)
    best = None
    tests = 0
    while lo < hi and tests < 8:
        mid = (lo + hi) // 2
        j = dict(job, ops_prefix=mid)
        r = run_job(j, miri_dir, timeout)
        tests += 1
        if r["ub"] and r["ub"]["kind"] == ub["kind"] and r["ub"]["site"] == ub["site"]:
            hi = mid
            best = mid
        else:
            lo = mid + 1
    return best if best is not None else None, tests


def plan(tier, seed):
    jobs = []
    rates = ["0.01", "0.1", "0.5"]
    if tier == "thorough":
        slices, per, seeds, models, cuts = 48, 6, 3, ["stacked", "tree"], 96
    else:
        slices, per, seeds, models, cuts = 32, 5, 1, ["stacked"], 32
    n = 0
    for s in range(slices):
        for k in range(seeds):
            for model in models:
                jobs.append({"part": "cutfree", "first": s * per, "count": per, "corpus_seed": seed, "miri_seed": seed * 1000 + n,
                             "preemption": rates[n % 3], "model": model})
                n += 1
    # a second look at the first slices under the other borrow model in the quick tier
    if tier != "thorough":
        for s in range(16):
            jobs.append({"part": "cutfree", "first": s * per, "count": per, "corpus_seed": seed, "miri_seed": seed * 1000 + 500 + s,
                         "preemption": rates[s % 3], "model": "tree"})
    for c in range(cuts):
        jobs.append({"part": "cut", "first": c, "count": 1, "corpus_seed": seed, "miri_seed": seed * 1000 + 700 + c,
                     "preemption": rates[c % 3], "model": "tree" if (tier == "thorough" and c % 2) else "stacked"})
    return jobs


def replay(path, miri_dir):
    rf = json.load(open(path))
    build(miri_dir)
    job = rf["job"]
    r = run_job(job, miri_dir, 900)
    if r["ub"] and r["ub"]["kind"] == rf["ub"]["kind"] and r["ub"]["site"] == rf["ub"]["site"] and r["ub"]["function"] == rf["ub"]["function"]:
        sys.stderr.write("replayed: %s at %s in %s\n%s\n" % (r["ub"]["kind"], r["ub"]["site"], r["ub"]["function"], r["ub"]["excerpt"]))
        print("VIOLATION property=%s replay=%s" % (PROPERTY, path))
        return 1
    if r["ub"]:
        sys.stderr.write("a different report is reproduced: %s at %s\n" % (r["ub"]["kind"], r["ub"]["site"]))
        return 3
    if r["harness_error"]:
        sys.stderr.write(r["harness_error"] + "\n")
        return 2
    sys.stderr.write("NOT REPRODUCED: %s\n" % path)
    return 0


def main():
    ap = argparse.ArgumentParser()
    ap.add_argument("--tier", default="quick")
    ap.add_argument("--seed", type=int, default=1)
    ap.add_argument("--miri-dir", default="/verif/miri")
    ap.add_argument("--evidence")
    ap.add_argument("--replay-dir", default="/verif/replays")
    ap.add_argument("--known", default="/verif/known_findings.json")
    ap.add_argument("--replay")
    ap.add_argument("--workers", type=int, default=16)
    ap.add_argument("--max-jobs", type=int, default=0)
    a = ap.parse_args()
    if a.replay:
        sys.exit(replay(a.replay, a.miri_dir))

    t0 = time.time()
    try:
        known = json.load(open(a.known))
    except Exception:
        known = {"findings": []}
    build(a.miri_dir)
    jobs = plan(a.tier, a.seed)
    if a.max_jobs:
        jobs = jobs[:a.max_jobs]
    print("MIRISIM check property=%s tier=%s seed=%d jobs=%d workers=%d" % (PROPERTY, a.tier, a.seed, len(jobs), a.workers))
    timeout = 1500 if a.tier == "thorough" else 600
    with ThreadPoolExecutor(max_workers=a.workers) as ex:
        results = list(ex.map(lambda j: run_job(j, a.miri_dir, timeout), jobs))

    harness_errors = []
    violations = []
    known_hits = {}
    tally = {}
    scen_runs = 0
    scen_distinct = set()
    completed_jobs = 0
    samples = []
    for r in results:
        job = r["job"]
        for k, v in r["tally"].items():
            if k not in ("first", "count"):
                tally[k] = tally.get(k, 0) + v
        if r["harness_error"]:
            harness_errors.append("%s first=%d: %s" % (job["part"], job["first"], r["harness_error"]))
            continue
        if r["ub"] is None:
            completed_jobs += 1
            scen_runs += job["count"]
            for i in range(job["first"], job["first"] + job["count"]):
                scen_distinct.add((job["part"], i, job["miri_seed"], job["model"]))
            continue
        # some report: scenarios before the failing one did complete
        done = max(r["scenarios_started"] - 1, 0)
        scen_runs += done
        k = known_match(known, r["ub"])
        if k is not None and job["part"] == "cut":
            known_hits[k["id"]] = known_hits.get(k["id"], 0) + 1
            continue
        violations.append(r)

    exit_code = 0
    reported = 0
    os.makedirs(a.replay_dir, exist_ok=True)
    seen = set()
    for r in violations:
        sig = (r["ub"]["kind"], r["ub"]["site"], r["ub"]["function"])
        if sig in seen or reported >= 4:
            continue
        seen.add(sig)
        job = dict(r["job"])
        # minimise: the single failing scenario, then the shortest history prefix
        idx = r["last_scenario"] if r["last_scenario"] is not None else job["first"]
        single = dict(job, first=idx, count=1)
        r1 = run_job(single, a.miri_dir, timeout)
        if not (r1["ub"] and r1["ub"]["kind"] == r["ub"]["kind"] and r1["ub"]["site"] == r["ub"]["site"]):
            single = job  # needs its predecessors (state carried between scenarios): keep the slice
            r1 = r
        ops_total = 0
        m = re.search(r"ops=(\d+)", r1["ub"]["excerpt"]) if False else None
        prefix, tests = (None, 0)
        if single["count"] == 1:
            prefix, tests = minimise_prefix(single, a.miri_dir, r1["ub"], 40, timeout)
            if prefix is not None:
                single = dict(single, ops_prefix=prefix)
                r1 = run_job(single, a.miri_dir, timeout)
        # it must replay twice
        again = run_job(single, a.miri_dir, timeout)
        same = again["ub"] and r1["ub"] and again["ub"]["kind"] == r1["ub"]["kind"] and again["ub"]["site"] == r1["ub"]["site"]
        if not same:
            harness_errors.append("report %s at %s does not replay" % (r["ub"]["kind"], r["ub"]["site"]))
            continue
        path = os.path.join(a.replay_dir, "C24-seed%d-%s-%d-miri%d.json" % (a.seed, single["part"], single["first"], single["miri_seed"]))
        json.dump({"engine": "mirisim", "property": PROPERTY, "job": single, "ub": r1["ub"], "flags": miri_flags(single),
                   "minimiser_tests": tests, "original_job": r["job"]}, open(path, "w"), indent=1)
        print("violation: %s %s at %s in %s (part %s, scenario %d, miri seed %d, %s borrows, preemption %s)" % (
            PROPERTY, r1["ub"]["kind"], r1["ub"]["site"], r1["ub"]["function"], single["part"], single["first"], single["miri_seed"], single["model"], single["preemption"]))
        print("  " + r1["ub"]["message"])
        print("VIOLATION property=%s replay=%s" % (PROPERTY, path))
        reported += 1
        exit_code = 1

    for k in known.get("findings", []):
        if k.get("property") == PROPERTY and k.get("status") == "open":
            print("KNOWN-FINDING: property=%s %s (%s; re-observed %d times in this run)" % (PROPERTY, k["id"], k.get("what", ""), known_hits.get(k["id"], 0)))

    # batch self-test
    if len(jobs) >= 20:
        for key in ("timer_during", "timer_after", "timer_cancelled", "reasks", "solve_calls", "api_direct"):
            if tally.get(key, 0) == 0:
                harness_errors.append("probe counter %s stuck at zero" % key)
        if completed_jobs == 0:
            harness_errors.append("no job completed")

    wall = time.time() - t0
    try:
        ver = subprocess.run(["cargo", "+nightly", "miri", "--version"], stdout=subprocess.PIPE, stderr=subprocess.DEVNULL).stdout.decode().strip()
    except Exception:
        ver = "?"
    for r in results[:400]:
        if r["ub"] is None and not r["harness_error"] and len(samples) < 3 and r["tally"].get("ops", 0) > 0:
            samples.append({"job": r["job"], "flags": miri_flags(r["job"]), "tally": r["tally"], "wall_s": r["wall_s"]})
    ev = {
        "property_id": PROPERTY, "tier": a.tier, "seed": a.seed, "level": "exploration", "wall_s": round(wall, 1), "violations": reported,
        "coverage": {
            "evaluations": scen_runs,
            "distinct_nontrivial": len(scen_distinct),
            "rule": "one evaluation = one generated scenario (program + call history incl. timer operations) executed to the end under Miri with one (scheduler seed, preemption rate, borrow model); distinct = different (corpus part, scenario index, Miri seed, borrow model); non-trivial = the scenario completed inside a job that executed at least one API operation. Scenarios of the cut part that stop at the known finding are counted as known-finding hits, not as evaluations.",
            "samples": samples,
            "jobs": len(jobs), "jobs_completed_clean": completed_jobs,
            "slowest_job_s": max([r["wall_s"] for r in results] + [0]),
            "corpus_tally": tally,
            "known_findings_reobserved": known_hits,
            "miri_version": ver,
            "flag_sets": sorted(set(miri_flags(j) .split(" -Zmiri-seed")[0] for j in jobs))[:3] + ["-Zmiri-seed=<per job> -Zmiri-preemption-rate in {0.01,0.1,0.5} -Zmiri-ignore-leaks [-Zmiri-tree-borrows]"],
            "scenarios_per_hour": int(scen_runs / wall * 3600) if wall > 0 else 0,
            "components": {"real": ["suiron as shipped (guard off)", "thread_timer 0.3.0 from the registry", "std::thread, std::sync"], "simulated": ["OS scheduler -> Miri's seeded scheduler with preemption", "clock -> Miri's virtual clock (isolation)", "memory -> Miri's abstract machine with Stacked/Tree Borrows and data-race detection"]},
            "harness_errors": harness_errors,
        },
        "assumptions": ["Miri's model of Rust (Stacked Borrows by default, Tree Borrows in part of the jobs) — both experimental",
                        "memory leaks are not reported (-Zmiri-ignore-leaks): the engine's proof trees are Rc cycles and leak by construction; leaks are not undefined behaviour",
                        "in the cut part the known finding F6 ends the process at the first executed cut, so later undefined behaviour in the same scenario is masked"],
    }
    if a.evidence:
        os.makedirs(os.path.dirname(a.evidence), exist_ok=True)
        json.dump(ev, open(a.evidence, "w"), indent=1)
    print("jobs=%d clean=%d scenario_runs=%d known_hits=%s tally=%s wall_s=%.0f violations=%d" % (len(jobs), completed_jobs, scen_runs, known_hits, tally, wall, reported))
    if harness_errors:
        for e in harness_errors[:8]:
            print("HARNESS-ERROR: " + e)
        if exit_code == 0:
            sys.exit(2)
    sys.exit(exit_code)


if __name__ == "__main__":
    main()
