//! miricorpus — the program MIRISIM executes under Miri (property C24).
//!
//! It drives the *shipped* suiron code (no hooks, real thread_timer crate, real
//! std threads and locks) through generated programs and call histories. Miri
//! is the simulator: it interprets the program, owns the thread scheduler
//! (seeded, with preemption) and, under isolation, a virtual clock, and it
//! checks every access against the aliasing model, for data races, bounds and
//! lifetime. This program only has to reach the code: cut at every position of
//! conjunctions and disjunctions, in called predicates and followed by failing
//! goals; not; nested and/or; re-asking after exhaustion; a query timer that
//! fires during a search, after a search, and one that is cancelled.
//!
//!   miricorpus --seed S --part cutfree|cut --first I --count N [--list]
//!
//! All choices come from Rng::split(seed, "C24-<part>", index). The seed and
//! the slice come in on the command line only (cargo-miri replays build-time
//! environment variables).

use simcore::ast::*;
use simcore::gen::gen_scenario;
use simcore::rng::Rng;
use simcore::scenario::*;
use std::cell::RefCell;
use std::collections::BTreeMap;
use std::rc::Rc;
use std::time::Duration;
use suiron::*;

/// Extra operations that only this corpus uses: direct use of the query timer API.
#[derive(Clone, Debug)]
enum MOp {
    /// an operation of the shared history vocabulary
    Q(Op),
    /// start_query_timer(ms), then keep asking handle h until the flag is seen or the query ends
    TimerDuring { h: usize, ms: u64 },
    /// start_query_timer(ms), sleep until it has fired, cancel_timer
    TimerAfter { ms: u64 },
    /// start_query_timer(50), cancel_timer at once
    TimerCancelled,
    /// start_query(), stop_query(), query_stopped() from the calling thread
    FlagCalls,
    /// stop_query() while a query is live (the shared generator's Stop op)
    StopButton,
    /// the knowledge base is changed between queries, through add_rules or directly through the
    /// public HashMap type: kind 0 add_rules on an existing predicate, 1 remove + insert of a
    /// predicate's clause vector, 2 the whole knowledge base replaced by a rebuilt one, 3 insert of a
    /// new predicate. All query handles are dropped first (they borrow the knowledge base).
    KbMutate { kind: u64, q: usize },
    /// parse_rule / parse_query on generated and hand-picked texts
    ParseTexts { seed: u64 },
    /// the shared generator's Assert op: add_rules(kb, extra_clauses[c]) between queries
    AssertExtra { c: usize },
}

struct Handle<'a> {
    goal: Goal,
    sn: Rc<RefCell<SolutionNode<'a>>>,
    class: QueryClass,
}

fn cut_programs(rng: &mut Rng) -> (Vec<Clause>, Vec<QuerySpec>) {
    // Cut at every position of a conjunction, in a disjunction branch, in a called predicate,
    // and followed by a failing goal.
    let mut clauses = vec![];
    for i in 1..=3 {
        clauses.push(Clause { functor: "v".into(), args: vec![Term::Int(i)], body: None });
    }
    let n = rng.range(2, 4) as usize;
    let pos = rng.range(0, n as u64) as usize;
    let mut gs: Vec<GoalSpec> = (0..n).map(|k| GoalSpec::Call("v".into(), vec![Term::Var(format!("$A{}", k))])).collect();
    gs.insert(pos, GoalSpec::Cut);
    if rng.chance(1, 3) {
        gs.push(GoalSpec::Fail);
    }
    if rng.chance(1, 3) {
        gs.push(GoalSpec::Cmp("equal".into(), Term::var("$A0"), Term::Int(rng.range(1, 3) as i64)));
    }
    clauses.push(Clause { functor: "c1".into(), args: vec![Term::var("$A0")], body: Some(GoalSpec::And(gs)) });
    clauses.push(Clause { functor: "c1".into(), args: vec![Term::Int(9)], body: None });
    // cut inside a disjunction branch
    clauses.push(Clause {
        functor: "c2".into(),
        args: vec![Term::var("$X")],
        body: Some(GoalSpec::Or(vec![
            GoalSpec::And(vec![GoalSpec::Call("v".into(), vec![Term::var("$X")]), GoalSpec::Cut]),
            GoalSpec::Call("v".into(), vec![Term::var("$X")]),
        ])),
    });
    // cut in a called predicate, caller keeps backtracking
    clauses.push(Clause {
        functor: "first".into(),
        args: vec![Term::var("$X")],
        body: Some(GoalSpec::And(vec![GoalSpec::Call("v".into(), vec![Term::var("$X")]), GoalSpec::Cut])),
    });
    clauses.push(Clause {
        functor: "c3".into(),
        args: vec![Term::var("$X"), Term::var("$Y")],
        body: Some(GoalSpec::And(vec![
            GoalSpec::Call("v".into(), vec![Term::var("$X")]),
            GoalSpec::Call("first".into(), vec![Term::var("$Y")]),
            if rng.chance(1, 2) { GoalSpec::Not(Box::new(GoalSpec::Call("c1".into(), vec![Term::Int(7)]))) } else { GoalSpec::Nl },
        ])),
    });
    // a body that is only a cut; a cut as first goal
    clauses.push(Clause { functor: "c4".into(), args: vec![], body: Some(GoalSpec::Cut) });
    clauses.push(Clause { functor: "c4".into(), args: vec![], body: None });
    clauses.push(Clause {
        functor: "c5".into(),
        args: vec![Term::var("$X")],
        body: Some(GoalSpec::And(vec![GoalSpec::Cut, GoalSpec::Call("v".into(), vec![Term::var("$X")])])),
    });
    let q = |f: &str, n: usize| QuerySpec { functor: f.into(), args: (0..n).map(|k| Term::Var(format!("$P{}", k))).collect(), class: QueryClass::Finite, via_text: false };
    let mut queries = vec![q("c1", 1), q("c2", 1), q("c3", 2), q("c4", 0), q("c5", 1), q("first", 1)];
    rng.shuffle(&mut queries);
    queries.truncate(rng.range(2, 4) as usize);
    (clauses, queries)
}

/// Miri runs the engine some thousand times slower than native code: the slow predicates of the
/// shared generator (w^d goal attempts) are kept only when they are small.
fn too_expensive(scn: &Scenario) -> bool {
    let w = scn.clauses.iter().filter(|c| c.functor == "t").count() as u64;
    for c in &scn.clauses {
        if c.functor == "spin" || c.functor == "gen" {
            if let Some(GoalSpec::And(gs)) = &c.body {
                let d = gs.iter().filter(|g| matches!(g, GoalSpec::Call(f, _) if f == "t")).count() as u32;
                if w.pow(d) > 130 {
                    return true;
                }
            }
        }
    }
    false
}

/// Chains of variable-to-variable bindings of random length and direction, ended (or not) by a
/// constant, then handed to every built-in that resolves its arguments through the substitution
/// set (print, print_list, count, append, comparison, arithmetic, unification with a term).
fn binding_chain_programs(rng: &mut Rng) -> (Vec<Clause>, Vec<QuerySpec>) {
    let mut clauses = vec![];
    let mut queries = vec![];
    let n_rules = rng.range(2, 4);
    for r in 0..n_rules {
        let len = rng.range(1, 4) as usize;
        let mut gs: Vec<GoalSpec> = vec![];
        // $C0 = $C1, $C1 = $C2, ... in random order and direction (each pair once: no cycles)
        let mut pairs: Vec<(usize, usize)> = (0..len).map(|i| (i, i + 1)).collect();
        rng.shuffle(&mut pairs);
        for (a, b) in pairs {
            let (l, r2) = if rng.chance(1, 2) { (a, b) } else { (b, a) };
            gs.push(GoalSpec::Unify(Term::Var(format!("$C{}", l)), Term::Var(format!("$C{}", r2))));
        }
        let ground = rng.chance(1, 2);
        if ground {
            let end = if rng.chance(1, 2) { len } else { 0 };
            let c = if rng.chance(1, 2) { Term::Int(rng.range(1, 5) as i64) } else { Term::atom("k") };
            let g = GoalSpec::Unify(Term::Var(format!("$C{}", end)), c);
            let at = rng.usize_below(gs.len() + 1);
            gs.insert(at, g);
        }
        let v = |rng: &mut Rng| Term::Var(format!("$C{}", rng.usize_below(len + 1)));
        let uses = rng.range(1, 3);
        for _ in 0..uses {
            let g = match rng.below(6) {
                0 => GoalSpec::Print(vec![Term::atom("<%s|%s>"), v(rng), v(rng)]),
                1 => GoalSpec::BuiltIn("print_list".into(), vec![Term::List(vec![v(rng), Term::atom("z")], None)]),
                2 => GoalSpec::BuiltIn("count".into(), vec![Term::List(vec![v(rng), v(rng)], None), Term::var("$N")]),
                3 => GoalSpec::BuiltIn("append".into(), vec![v(rng), Term::List(vec![Term::atom("z")], None), Term::var("$L")]),
                4 => GoalSpec::Cmp((*rng.pick(&["equal", "less_than", "greater_than_or_equal"])).to_string(), v(rng), Term::Int(3)),
                _ => GoalSpec::Call("holds".into(), vec![v(rng)]),
            };
            gs.push(g);
        }
        let name = format!("bc{}", r);
        let head_var = rng.chance(1, 2);
        clauses.push(Clause {
            functor: name.clone(),
            args: if head_var { vec![Term::Var(format!("$C{}", rng.usize_below(len + 1)))] } else { vec![] },
            body: Some(GoalSpec::And(gs)),
        });
        queries.push(QuerySpec { functor: name, args: if head_var { vec![Term::var("$P0")] } else { vec![] }, class: QueryClass::Finite, via_text: false });
    }
    clauses.push(Clause { functor: "holds".into(), args: vec![Term::var("$F")], body: None });
    clauses.push(Clause { functor: "holds".into(), args: vec![Term::Int(3)], body: None });
    (clauses, queries)
}

fn uses_cut(scn: &Scenario) -> bool {
    scn.clauses.iter().any(|c| c.body.as_ref().map(|b| b.contains(&|g| matches!(g, GoalSpec::Cut))).unwrap_or(false))
}

/// One scenario of the corpus: program, queries, and a history with timer operations.
fn make_scenario(seed: u64, part: &str, index: u64) -> (Scenario, Vec<MOp>) {
    let label = format!("C24-{}", part);
    let mut rng = Rng::split(seed, &label, index);
    // the shared generator, all three families in turn; small programs (Miri is ~1000x slower)
    let family = ["C05", "C22", "C23"][(index % 3) as usize];
    let mut scn = gen_scenario(family, &mut rng);
    let mut tries = 0;
    while tries < 50 && ((part == "cutfree" && uses_cut(&scn)) || scn.clauses.len() > 30 || too_expensive(&scn)) {
        scn = gen_scenario(family, &mut rng);
        tries += 1;
    }
    if too_expensive(&scn) {
        scn.clauses.retain(|c| c.functor != "spin" && c.functor != "gen");
    }
    if part == "cutfree" && uses_cut(&scn) {
        // give up on the generator: strip the rules that contain a cut
        scn.clauses.retain(|c| !c.body.as_ref().map(|b| b.contains(&|g| matches!(g, GoalSpec::Cut))).unwrap_or(false));
    }
    if rng.chance(1, 3) {
        // binding chains through the built-ins (both parts of the corpus)
        let (mut c, q) = binding_chain_programs(&mut rng);
        scn.clauses.append(&mut c);
        let base = scn.queries.len();
        scn.queries.extend(q);
        for (k, qi) in (base..scn.queries.len()).enumerate() {
            let h = 200 + k;
            scn.history.push(Op::New { h, q: qi, gap_ms: 0 });
            scn.history.push(if rng.chance(1, 2) { Op::SolveAll { h } } else { Op::Next { h } });
            scn.history.push(Op::Next { h });
        }
    }
    if part == "cut" {
        if rng.chance(2, 3) || !uses_cut(&scn) {
            let (mut c, q) = cut_programs(&mut rng);
            // keep the generated program too: cut rules may call nothing of it, but queries mix
            scn.clauses.append(&mut c);
            let base = scn.queries.len();
            scn.queries.extend(q);
            // a history over the cut queries
            let mut ops = vec![];
            for (k, qi) in (base..scn.queries.len()).enumerate() {
                let h = 100 + k;
                ops.push(Op::New { h, q: qi, gap_ms: 0 });
                let n = rng.range(1, 5);
                for _ in 0..n {
                    ops.push(match rng.below(4) {
                        0 => Op::Solve { h },
                        1 => Op::SolveAll { h },
                        _ => Op::Next { h },
                    });
                }
            }
            if rng.chance(1, 2) {
                scn.history.extend(ops);
            } else {
                scn.history = ops;
            }
        }
    }
    // histories: the shared vocabulary, with the expensive operations thinned out, plus timer operations
    let mut mops: Vec<MOp> = vec![];
    let mut newest: Option<(usize, usize)> = None;
    let allow_limit = index % 16 == 5; // one scenario in 16 waits for the real 1000 ms limit
    for op in scn.history.clone() {
        match &op {
            Op::New { h, q, .. } => {
                newest = Some((*h, *q));
                // timer operations between queries (start_query() resets the variable counter,
                // so it must not be called while a query is live)
                match rng.below(8) {
                    0 => mops.push(MOp::TimerCancelled),
                    1 => mops.push(MOp::TimerAfter { ms: rng.range(1, 3) }),
                    2 => mops.push(MOp::FlagCalls),
                    _ => {}
                }
                mops.push(MOp::Q(op.clone()));
            }
            Op::Next { h } | Op::Solve { h } | Op::SolveAll { h } => {
                let class = newest.filter(|n| n.0 == *h).map(|n| scn.queries[n.1].class);
                match class {
                    None => {}
                    Some(QueryClass::Finite) => mops.push(MOp::Q(op.clone())),
                    Some(QueryClass::Unbounded) => match op {
                        Op::SolveAll { .. } if !allow_limit => mops.push(MOp::TimerDuring { h: *h, ms: rng.range(1, 4) }),
                        _ => mops.push(MOp::Q(op.clone())),
                    },
                    Some(QueryClass::Diverges) => {
                        if allow_limit {
                            mops.push(MOp::Q(op.clone()));
                        } else {
                            mops.push(MOp::TimerDuring { h: *h, ms: rng.range(1, 4) });
                        }
                    }
                }
                if rng.chance(1, 6) {
                    mops.push(MOp::TimerDuring { h: *h, ms: rng.range(1, 3) });
                }
            }
            Op::Idle { ms } => mops.push(MOp::Q(Op::Idle { ms: (*ms).min(3) })),
            Op::Assert { c } => mops.push(MOp::AssertExtra { c: *c }),
            Op::Reload => mops.push(MOp::KbMutate { kind: 2, q: 0 }),
            // the stop button between two operations (the armed form needs the simulator's probe)
            Op::Stop { .. } => mops.push(MOp::StopButton),
            Op::Drop { .. } => mops.push(MOp::Q(op.clone())),
        }
    }
    // a knowledge base that changes between queries (one scenario in three)
    if rng.chance(1, 3) {
        let news: Vec<(usize, usize)> = mops
            .iter()
            .enumerate()
            .filter_map(|(i, m)| if let MOp::Q(Op::New { q, .. }) = m { Some((i, *q)) } else { None })
            .collect();
        if news.len() >= 1 {
            let (at, q) = *rng.pick(&news);
            // query the predicate, change the knowledge base, query it again
            let kind = rng.below(4);
            let h = 300;
            let extra = vec![
                MOp::Q(Op::New { h, q, gap_ms: 0 }),
                MOp::Q(Op::Next { h }),
                MOp::KbMutate { kind, q },
                MOp::Q(Op::New { h: h + 1, q, gap_ms: 0 }),
                MOp::Q(Op::Next { h: h + 1 }),
                MOp::Q(Op::Next { h: h + 1 }),
            ];
            // only for queries that are cheap to step
            if scn.queries[q].class == QueryClass::Finite {
                let tail = mops.split_off(at);
                mops.extend(extra);
                mops.extend(tail);
            }
        }
    }
    // the parsers (one scenario in two)
    if rng.chance(1, 2) {
        let at = rng.usize_below(mops.len() + 1);
        mops.insert(at, MOp::ParseTexts { seed: rng.next_u64() });
    }
    (scn, mops)
}

fn parse_texts(seed: u64, scn: &Scenario, t: &mut Tally) {
    let mut rng = Rng::new(seed);
    // generated rule texts (the file-load simulator's generator: atoms with spaces, quoted strings,
    // floats, lists with tails, infix operators) — whatever the parser says is fine, it must only
    // say it without undefined behaviour
    let prog = simcore::textgen::gen_program(&mut rng, &|_| true);
    for r in prog.rules.iter().take(6) {
        let _ = std::panic::catch_unwind(|| parse_rule(r).is_ok());
        t.parsed += 1;
    }
    for text in ["Henry V", "Vitamin C", "Mr T", "$X = Henry V", "[Mr T, Harold II | $T]", "$X = $Y + 7", "$X <= 2.5", "f(a, [b | $T], \"q, r\")", "x", "$_", "[]", "[a]"] {
        if rng.chance(1, 2) {
            let _ = std::panic::catch_unwind(|| parse_term(text).is_ok());
            let _ = std::panic::catch_unwind(|| parse_subgoal(text).is_ok());
            t.parsed += 1;
        }
    }
    // malformed input: every parser must reject (or accept) it without undefined behaviour —
    // hand-picked fragments, and generated texts cut off at a random character
    for text in ["$X = $Y +", "A -", "B *", "7 /", "f(a, b", "[a, b", "[a | ", "\"unterminated", "f(a))", "", " ", "$", ":-", "a :- ", "a :- b,", "1.5.", "=", "f(", "f()", "not(", "a :- b ; ", "$X ==", "<", "[|]", "f(,)", "é", "f(é, 日本", "a :- print(\"Hello), nl.", "print(\"x", "a :- b, \"", "\"", "a :- \"q\" = $X, print(\"r"] {
        if rng.chance(1, 3) {
            let _ = std::panic::catch_unwind(|| parse_term(text).is_ok());
            let _ = std::panic::catch_unwind(|| parse_subgoal(text).is_ok());
            let _ = std::panic::catch_unwind(|| parse_rule(text).is_ok());
            let _ = std::panic::catch_unwind(|| parse_query(text).is_ok());
            t.parsed += 1;
            t.malformed += 1;
        }
    }
    for r in prog.rules.iter().take(4) {
        let chars: Vec<char> = r.chars().collect();
        if chars.is_empty() {
            continue;
        }
        let cut = rng.usize_below(chars.len());
        let piece: String = chars[..cut].iter().collect();
        let _ = std::panic::catch_unwind(|| parse_rule(&piece).is_ok());
        let _ = std::panic::catch_unwind(|| parse_subgoal(&piece).is_ok());
        let _ = std::panic::catch_unwind(|| parse_term(&piece).is_ok());
        // and the tail of the rule from there
        let rest: String = chars[cut..].iter().collect();
        let _ = std::panic::catch_unwind(|| parse_term(&rest).is_ok());
        let _ = std::panic::catch_unwind(|| parse_subgoal(&rest).is_ok());
        t.parsed += 1;
        t.malformed += 1;
    }
    // the scenario's own clauses and queries, as text
    for c in scn.clauses.iter().take(5) {
        let text = c.to_string();
        let _ = std::panic::catch_unwind(|| parse_rule(&text).is_ok());
        t.parsed += 1;
    }
    for q in &scn.queries {
        let text = q.to_string();
        let _ = std::panic::catch_unwind(|| parse_query(&text).is_ok());
        t.parsed += 1;
    }
}

fn term_is_ground(t: &Term) -> bool {
    match t {
        Term::Var(_) | Term::Anon => false,
        Term::List(items, tail) => tail.is_none() && items.iter().all(term_is_ground),
        Term::Func(_, args) | Term::Cplx(_, args) => args.iter().all(term_is_ground),
        _ => true,
    }
}

/// The part of the public API that a program never reaches through a query: listing a knowledge
/// base, taking rules apart, renaming their variables, unifying terms by hand, the term
/// constructors and the smaller parsers. Cycle-free by construction (a renamed clause head is
/// unified with a ground head only), so nothing here can loop.
fn api_direct(seed: u64, scn: &Scenario, kb: &KnowledgeBase, t: &mut Tally) {
    let mut rng = Rng::new(seed ^ 0x5eed_a91);
    let _ = std::panic::catch_unwind(|| format_kb(kb).len());
    if rng.chance(1, 4) {
        let _ = std::panic::catch_unwind(|| print_kb(kb));
    }
    t.api_direct += 1;
    // rules taken apart and renamed
    for c in scn.clauses.iter().take(3) {
        let rule = c.to_suiron();
        let _ = std::panic::catch_unwind(|| {
            let head = rule.get_head();
            let body = rule.get_body();
            let text = format!("{} {} {}", rule, head, body);
            let mut vars = VarMap::new();
            let renamed = rule.clone().recreate_variables(&mut vars);
            text.len() + renamed.to_string().len() + vars.len()
        });
        t.api_direct += 1;
    }
    // unification by hand: a renamed head against every ground head of the same predicate, the
    // result inspected through the substitution-set API with references kept across the calls
    let ground: Vec<&Clause> = scn.clauses.iter().filter(|c| c.body.is_none() && c.args.iter().all(term_is_ground)).collect();
    for c in scn.clauses.iter().filter(|c| !c.args.iter().all(term_is_ground)).take(2) {
        for g in ground.iter().filter(|g| g.key() == c.key()).take(2) {
            let _ = std::panic::catch_unwind(|| {
                start_query();
                let mut vars = VarMap::new();
                let head = c.to_suiron().recreate_variables(&mut vars).get_head();
                let other = g.to_suiron().get_head();
                let ss = empty_ss!();
                let mut n = 0;
                if let Some(ss2) = head.unify(&other, &ss) {
                    if let Unifiable::SComplex(terms) = &head {
                        for term in terms.iter().skip(1) {
                            let a = get_ground_term(term, &ss2);
                            let b = get_constant(term, &ss2);
                            let l = get_list(term, &ss2);
                            if let Some(l) = l {
                                n += count_terms(l, &ss2) as usize + get_terms(l, &ss2).len();
                            }
                            n += [a, b].iter().flatten().map(|r| r.to_string().len()).sum::<usize>();
                        }
                    }
                    n += format_ss(&ss2).len();
                    if n % 5 == 0 {
                        print_ss(&ss2);
                    }
                    // and the other way round (unification is symmetric), on top of the result
                    let _ = other.unify(&head, &ss2).map(|s| s.len());
                }
                n
            });
            t.api_direct += 1;
        }
    }
    // constructors and the smaller parsers
    for text in ["add(1, 2)", "join(a, $X, \"b c\")", "multiply($X, 2.5)", "subtract(", "add()", "f(a, $X)", "f(a, [b, c | $T], g(h))", "f(", "f(a))", "[a, b | $T]", "[a, [], b]", "[a | ]", "[a, b", "a, $X, [b], \"q, r\", g(1, 2)", "a, ,b", "$X", "$", "$_", "nl", "fail", "!", "print(a, $X)", "not(f($X))", "f($X), g($Y) ; h", "$X = 3", "$X >= 2.5", "\"a\"b\"", "é(日本, $Ü)"] {
        if rng.chance(1, 5) {
            let _ = std::panic::catch_unwind(|| parse_function(text).is_ok());
            let _ = std::panic::catch_unwind(|| parse_complex(text).is_ok());
            let _ = std::panic::catch_unwind(|| parse_linked_list(text).is_ok());
            let _ = std::panic::catch_unwind(|| parse_arguments(text).map(|v| v.len()).unwrap_or(0));
            let _ = std::panic::catch_unwind(|| make_logic_var(text.to_string()).is_ok());
            let _ = std::panic::catch_unwind(|| generate_goal(text).map(|g| g.to_string().len()).unwrap_or(0));
            let _ = std::panic::catch_unwind(|| check_quotes(text, text.matches('"').count()).is_none());
            t.api_direct += 1;
        }
    }
    let _ = std::panic::catch_unwind(|| {
        let g = make_goal("f", vec![atom!("a"), logic_var!("$X"), SInteger(3)]);
        let h = make_goal_no_args("nl");
        let fact = make_fact(make_complex(vec![atom!("k"), SFloat(1.5), slist!(false, atom!("a"), atom!("b"))]));
        format!("{} {} {}", g, h, fact).len()
    });
    // leave the globals as a query constructor would
    start_query();
}

fn mutate_kb(kb: &mut KnowledgeBase, scn: &Scenario, kind: u64, q: usize, t: &mut Tally) {
    let spec = &scn.queries[q];
    let key = spec.key();
    let extra = Clause { functor: spec.functor.clone(), args: (0..spec.args.len()).map(|i| Term::Int(40 + i as i64)).collect(), body: None };
    match kind {
        0 => add_rules(kb, vec![extra.to_suiron()]),
        1 => {
            let mut v = kb.remove(&key).unwrap_or_default();
            v.push(extra.to_suiron());
            kb.insert(key, v);
        }
        2 => {
            let mut clauses = scn.clauses.clone();
            clauses.push(extra);
            *kb = build_kb(&clauses);
        }
        _ => {
            let fresh = Clause { functor: "zz_new".into(), args: vec![Term::Int(1)], body: None };
            kb.insert(fresh.key(), vec![fresh.to_suiron()]);
            let mut v = kb.remove(&key).unwrap_or_default();
            v.truncate(1);
            kb.insert(key, v);
        }
    }
    t.kb_mutations += 1;
}

/// The substitution-set API on an answer, as a caller inspecting a solution would use it:
/// references obtained from one call are kept across the other calls and used afterwards.
fn inspect_answer(goal: &Goal, ss: &Rc<SubstitutionSet>, t: &mut Tally) {
    if let Goal::ComplexGoal(Unifiable::SComplex(terms)) = goal {
        for term in terms.iter().skip(1) {
            if let Unifiable::LogicVar { id, .. } = term {
                if *id == 0 || *id >= ss.len() {
                    continue;
                }
                let bound = is_bound(term, ss);
                let binding = if bound { get_binding(term, ss) } else { None };
                let ground = get_ground_term(term, ss);
                let is_ground = is_ground_variable(term, ss);
                let constant = get_constant(term, ss);
                let list = get_list(term, ss);
                let complex = get_complex(term, ss);
                let again = get_ground_term(term, ss);
                // everything obtained above is used only now
                let mut text = String::new();
                for r in [binding, ground, constant, list, complex, again].iter().flatten() {
                    text.push_str(&r.to_string());
                }
                let _ = format_ss(ss);
                if is_ground && !text.is_empty() {
                    t.inspected += 1;
                }
            }
        }
    }
}

fn format_answer(goal: &Goal, ss: &Rc<SubstitutionSet>) -> String {
    let result = goal.replace_variables(ss);
    format_solution(goal, &result)
}

#[derive(Default)]
struct Tally {
    ops: u64,
    answers: u64,
    timer_fired_during_search: u64,
    timer_fired_after: u64,
    timer_cancelled: u64,
    solve_calls: u64,
    solve_timeouts: u64,
    reasks_after_none: u64,
    cut_rules: u64,
    kb_mutations: u64,
    parsed: u64,
    malformed: u64,
    inspected: u64,
    api_direct: u64,
}

fn run_scenario(scn: &Scenario, mops: &[MOp], t: &mut Tally) {
    let mut kb = build_kb(&scn.clauses);
    t.cut_rules += scn.clauses.iter().filter(|c| c.body.as_ref().map(|b| b.contains(&|g| matches!(g, GoalSpec::Cut))).unwrap_or(false)).count() as u64;
    // the history is cut at every change of the knowledge base: query handles borrow it
    let mut i = 0;
    while i < mops.len() {
        // (parse_query resets the variable counter like every query constructor, so parsing is also
        // done between segments, when no query is live)
        let end = mops[i..].iter().position(|m| matches!(m, MOp::KbMutate { .. } | MOp::ParseTexts { .. } | MOp::AssertExtra { .. })).map(|p| i + p).unwrap_or(mops.len());
        run_segment(scn, &kb, &mops[i..end], t);
        if end < mops.len() {
            match &mops[end] {
                MOp::KbMutate { kind, q } => mutate_kb(&mut kb, scn, *kind, *q, t),
                MOp::ParseTexts { seed } => {
                    parse_texts(*seed, scn, t);
                    api_direct(*seed, scn, &kb, t);
                }
                MOp::AssertExtra { c } => {
                    if *c < scn.extra_clauses.len() {
                        add_rules(&mut kb, vec![scn.extra_clauses[*c].to_suiron()]);
                        t.kb_mutations += 1;
                    }
                }
                _ => {}
            }
        }
        i = end + 1;
    }
}

fn run_segment(scn: &Scenario, kb: &KnowledgeBase, mops: &[MOp], t: &mut Tally) {
    let mut handles: BTreeMap<usize, Handle> = BTreeMap::new();
    let mut newest: Option<usize> = None;
    let mut ended: BTreeMap<usize, bool> = BTreeMap::new();
    for mop in mops {
        t.ops += 1;
        match mop {
            MOp::Q(Op::New { h, q, gap_ms: 0 }) => {
                let spec = &scn.queries[*q];
                let goal = spec.to_suiron();
                let sn = make_base_node(Rc::new(goal.clone()), kb);
                handles.insert(*h, Handle { goal, sn, class: spec.class });
                newest = Some(*h);
                ended.insert(*h, false);
            }
            MOp::Q(Op::Next { h }) if newest == Some(*h) => {
                let hd = &handles[h];
                if *ended.get(h).unwrap_or(&false) {
                    t.reasks_after_none += 1;
                }
                match next_solution(Rc::clone(&hd.sn)) {
                    Some(ss) => {
                        let _ = format_answer(&hd.goal, &ss);
                        inspect_answer(&hd.goal, &ss, t);
                        t.answers += 1;
                    }
                    None => {
                        ended.insert(*h, true);
                    }
                }
            }
            MOp::Q(Op::Solve { h }) if newest == Some(*h) => {
                let hd = &handles[h];
                t.solve_calls += 1;
                let s = solve(Rc::clone(&hd.sn));
                if s.starts_with("Query timed out") {
                    t.solve_timeouts += 1;
                }
                if s == "No more." {
                    ended.insert(*h, true);
                }
            }
            MOp::Q(Op::SolveAll { h }) if newest == Some(*h) => {
                let hd = &handles[h];
                t.solve_calls += 1;
                let v = solve_all(Rc::clone(&hd.sn));
                t.answers += v.len() as u64;
                if v.last().map(|s| s.starts_with("Query timed out")).unwrap_or(false) {
                    t.solve_timeouts += 1;
                } else {
                    ended.insert(*h, true);
                }
            }
            MOp::Q(Op::Idle { ms }) => std::thread::sleep(Duration::from_millis(*ms)),
            MOp::Q(Op::Drop { h }) => {
                handles.remove(h);
                if newest == Some(*h) {
                    newest = None;
                }
            }
            MOp::Q(_) => {}
            MOp::TimerDuring { h, ms } if newest == Some(*h) => {
                let hd = &handles[h];
                let timer = start_query_timer(*ms);
                let mut rounds = 0;
                loop {
                    let r = next_solution(Rc::clone(&hd.sn));
                    rounds += 1;
                    if query_stopped() {
                        t.timer_fired_during_search += 1;
                        break;
                    }
                    if r.is_none() || (hd.class != QueryClass::Diverges && rounds > 50) {
                        break;
                    }
                }
                cancel_timer(timer);
            }
            MOp::TimerDuring { .. } => {}
            MOp::TimerAfter { ms } => {
                let timer = start_query_timer(*ms);
                std::thread::sleep(Duration::from_millis(*ms + 2));
                if query_stopped() {
                    t.timer_fired_after += 1;
                }
                cancel_timer(timer);
            }
            MOp::TimerCancelled => {
                let timer = start_query_timer(50);
                cancel_timer(timer);
                t.timer_cancelled += 1;
            }
            MOp::FlagCalls => {
                stop_query();
                let _ = query_stopped();
                start_query();
                let _ = query_stopped();
            }
            MOp::StopButton => {
                stop_query();
                let _ = query_stopped();
            }
            MOp::KbMutate { .. } => {}
            MOp::ParseTexts { .. } | MOp::AssertExtra { .. } => {}
        }
    }
}

fn arg_value(args: &[String], name: &str) -> Option<String> {
    args.iter().position(|a| a == name).and_then(|i| args.get(i + 1)).cloned()
}

fn main() {
    let args: Vec<String> = std::env::args().collect();
    let seed: u64 = arg_value(&args, "--seed").and_then(|v| v.parse().ok()).unwrap_or(1);
    let part = arg_value(&args, "--part").unwrap_or_else(|| "cutfree".into());
    let first: u64 = arg_value(&args, "--first").and_then(|v| v.parse().ok()).unwrap_or(0);
    let count: u64 = arg_value(&args, "--count").and_then(|v| v.parse().ok()).unwrap_or(4);
    let list = args.iter().any(|a| a == "--list");
    // run only the first N operations of each history (used to shorten a failing scenario)
    let ops_prefix: Option<usize> = arg_value(&args, "--ops-prefix").and_then(|v| v.parse().ok());
    if count == 0 {
        return; // build warm-up
    }
    let mut t = Tally::default();
    for index in first..first + count {
        let (scn, mut mops) = make_scenario(seed, &part, index);
        if let Some(n) = ops_prefix {
            mops.truncate(n);
        }
        // the marker lets the driver attribute a Miri report to a scenario
        eprintln!("SCENARIO part={} index={} rules={} ops={}", part, index, scn.clauses.len(), mops.len());
        if list {
            for c in &scn.clauses {
                eprintln!("   {}", c);
            }
            eprintln!("   queries: {:?}", scn.queries.iter().map(|q| q.to_string()).collect::<Vec<_>>());
            eprintln!("   history: {:?}", mops);
            continue;
        }
        run_scenario(&scn, &mops, &mut t);
    }
    // let timer threads that are still waiting (lost cancellations, the 1000 ms limit) finish:
    // Miri reports threads that are alive when main returns
    std::thread::sleep(Duration::from_millis(1100));
    eprintln!(
        "TALLY part={} first={} count={} ops={} answers={} timer_during={} timer_after={} timer_cancelled={} solve_calls={} solve_timeouts={} reasks={} cut_rules={} kb_mutations={} parsed={} malformed={} inspected={} api_direct={}",
        part, first, count, t.ops, t.answers, t.timer_fired_during_search, t.timer_fired_after, t.timer_cancelled, t.solve_calls, t.solve_timeouts, t.reasks_after_none, t.cut_rules, t.kb_mutations, t.parsed, t.malformed, t.inspected, t.api_direct
    );
}
